#!/usr/bin/env python3
"""usage: tools/moveseeds.py <scratch dir .build/seed-xx> <round> <json file: {"history": {id: text}, "also": {id: [checks]}, "skip": [ids]}>
Moves confirmed proposals from the scratch intake directory into seeded/<id>/ with the bookkeeping fields in meta.json."""
import glob, json, os, shutil, sys
os.chdir(os.path.join(os.path.dirname(os.path.abspath(__file__)), ".."))
S, rnd, notes = sys.argv[1], int(sys.argv[2]), json.load(open(sys.argv[3]))
hist, also, skip = notes.get("history", {}), notes.get("also", {}), set(notes.get("skip", []))
n = 0
for d in sorted(glob.glob(S + "/C*")):
    i = os.path.basename(d)
    if i in skip or os.path.exists("seeded/" + i):
        continue
    log = open(d + "/seedcheck.log").read()
    if "baseline with patch: PASS" not in log or "demo with patch: FAIL" not in log or "demo on unchanged tree: PASS" not in log:
        print("not confirmed:", i)
        continue
    dst = "seeded/" + i
    os.makedirs(dst)
    for f in ("patch.diff", "demo_test.go"):
        shutil.copy(d + "/" + f, dst + "/" + f)
    m = json.load(open(d + "/meta.json"))
    m["id"], m["breaks_property"], m["round"] = i, i[:3], rnd
    m["confirmed"] = {"how": "tools/seedcheck.sh seeded/%s confirm %s (scratch copy of /repo outside /repo and /verif, removed afterwards)" % (i, i[:3]),
                      "patch_applies_and_builds": True, "baseline_suite_passes_with_patch": True,
                      "demo_fails_with_patch": True, "demo_passes_without_patch": True}
    if i in hist:
        m["history"] = hist[i]
    json.dump(m, open(dst + "/meta.json", "w"), indent=1)
    if i in also:
        open(dst + "/also.txt", "w").write("\n".join(also[i]) + "\n")
    n += 1
print("moved", n)
