#!/bin/bash
# Runs every seeded defect against the quick check of the property it breaks (and extra checks listed in
# seeded/<id>/also.txt) and prints one line per seed. Usage: [PAR=n] tools/seedmatrix.sh [seed ids...]
cd "$(dirname "$(readlink -f "$0")")/.."
IDS="$@"; [ -z "$IDS" ] && IDS=$(ls seeded | grep -E '^C[0-9]+-[0-9]+$' | sort -V)
one() {
  id=$1
  P=${id%-*}
  EXTRA=""; [ -f seeded/$id/also.txt ] && EXTRA=$(cat seeded/$id/also.txt)
  BASE=""; [ -f seeded/$id/base.txt ] && BASE=$(cat seeded/$id/base.txt)
  OUT=$(SEED_BASE=$BASE tools/seedcheck.sh seeded/$id $P $EXTRA 2>&1)
  LINE=""
  for c in $P $EXTRA; do
    rc=$(echo "$OUT" | grep -m1 "^check $c:" | sed 's/.*exit=\([0-9]*\).*/\1/')
    case "$rc" in 1) LINE="$LINE $c:CAUGHT";; 0) LINE="$LINE $c:missed";; *) LINE="$LINE $c:rc=$rc";; esac
  done
  echo "$id$LINE${BASE:+ (base $BASE)}"
}
export -f one
echo $IDS | tr ' ' '\n' | xargs -P ${PAR:-1} -I{} bash -c 'one {}'
