#!/bin/bash
# Runs every quick check against every behaviour-preserving change in benign/ (scratch copies of /repo; /repo is never
# touched). Every check must stay quiet: a line "ALARM" means a check raised an alarm on code where the properties hold.
# Usage: [PAR=n] [ONLY="Cxx Cyy"] tools/benignmatrix.sh [ids...]      (benign/<id>/base.txt names an older base commit if the patch needs one)
cd "$(dirname "$(readlink -f "$0")")/.."
IDS="$@"; [ -z "$IDS" ] && IDS=$(ls benign | grep -v README | sort -V)
one() {
  id=$1
  BASE=""; [ -f benign/$id/base.txt ] && BASE=$(cat benign/$id/base.txt)
  CHECKS=all; [ -f benign/$id/checks.txt ] && CHECKS=$(cat benign/$id/checks.txt)
  # ONLY="C09 C10": run just these checks (minus any the change's checks.txt leaves out)
  if [ -n "$ONLY" ]; then
    if [ "$CHECKS" = all ]; then CHECKS="$ONLY"; else CHECKS=$(for c in $ONLY; do echo " $CHECKS " | grep -q " $c " && echo -n "$c "; done); fi
  fi
  OUT=$(SEED_BASE=$BASE tools/seedcheck.sh benign/$id $CHECKS 2>&1)
  bad=$(echo "$OUT" | grep "^check " | grep -v "exit=0" | grep -v "exit=2" | cut -c1-200 | tr '\n' ';')
  inc=$(echo "$OUT" | grep "^check " | grep "exit=2" | cut -c1-40 | tr '\n' ';')
  n=$(echo "$OUT" | grep -c "exit=0")
  if echo "$OUT" | grep -q "DOES NOT"; then echo "$id: $(echo "$OUT" | grep 'DOES NOT')"; elif [ -z "$bad" ] && [ -n "$inc" ]; then echo "$id: quiet ($n checks), NO VERDICT (exit 2, infrastructure) for: $inc"; elif [ -z "$bad" ]; then echo "$id: quiet ($n checks)"; else echo "$id: ALARM $bad"; fi
}
export -f one
echo $IDS | tr ' ' '\n' | xargs -P ${PAR:-1} -I{} bash -c 'one {}'
