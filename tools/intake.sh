#!/bin/bash
# usage: tools/intake.sh <tmp prefix, e.g. s5> <first id number, e.g. 13> <property ids...>
# Copies /tmp/<prefix>_<Cxx>_out/<k>/ to .build/seed-<prefix>/<Cxx>-<n>, confirms each proposal (seedcheck confirm) and runs the
# quick check of its property; prints one block per proposal. Runs up to PAR (default 4) proposals side by side.
cd "$(dirname "$(readlink -f "$0")")/.."
PFX=$1; FIRST=$2; shift 2
mkdir -p .build/seed-$PFX
IDS=""
for P in "$@"; do
  for k in 1 2 3 4; do
    src=/tmp/${PFX}_${P}_out/$k
    [ -f $src/patch.diff ] || continue
    id=$P-$((FIRST+k-1))
    rm -rf .build/seed-$PFX/$id; mkdir -p .build/seed-$PFX/$id
    cp $src/patch.diff $src/demo_test.go $src/meta.json .build/seed-$PFX/$id/ 2>/dev/null
    IDS="$IDS $id"
  done
done
one() { id=$1; P=${id%-*}; tools/seedcheck.sh .build/seed-$PFX/$id confirm $P > .build/seed-$PFX/$id/seedcheck.log 2>&1; }
export -f one; export PFX
echo $IDS | tr ' ' '\n' | xargs -P ${PAR:-4} -I{} bash -c 'one {}'
for id in $IDS; do echo "== $id"; grep -v "^  " .build/seed-$PFX/$id/seedcheck.log | grep -v "diffLinks:" | cut -c1-330; done
