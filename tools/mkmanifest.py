#!/usr/bin/env python3
"""Regenerates /verif/MANIFEST.json from the table below (single source of truth for the claims)."""
import json, os, sys
VERIF = os.path.dirname(os.path.dirname(os.path.abspath(__file__)))

CHECKS = {
 "C01": dict(cat="exploration", design="DESIGN.md §4 C01",
   technique="stateful model-based property testing (rapid) against a sorted-map model; small-scope exhaustive enumeration in the thorough tier",
   text="Generated histories (insert/update/delete/lookup/iterate/clone/persist/reload, every key and value type, bf 2-64, both formats, all cache kinds) are applied to mast and to a sorted-map model and compared after every step; thorough adds every insert/delete word of length <=5 over 4 user keys x 81 layer tables. Held-on-everything-explored, not a proof.",
   note="Trusted: Go stdlib (encoding/json as the configured default marshaler), rapid, the harness' own model. Nil keys/values not generated."),
}

ALL = ["C%02d" % i for i in range(1, 20)]
NOT_YET = "check not built yet in this session (work in progress; see DESIGN.md §4 for the planned generated-input check)"

def main():
    checks = []
    for pid in ALL:
        if pid not in CHECKS:
            continue
        c = CHECKS[pid]
        checks.append({
            "property_id": pid,
            "quick_cmd": "./check %s quick" % pid,
            "thorough_cmd": "./check %s thorough" % pid,
            "evidence_file": "/verif/evidence/%s.json" % pid,
            "replay_cmd_template": "./check %s --replay {path}" % pid,
            "engine": "rapid-harness",
            "level_claimed": {"category": c["cat"], "text": c["text"], "design_ref": c["design"]},
            "level_note": c["note"],
            "technique": c["technique"],
        })
    m = {
        "version": 1,
        "setup_cmd": "./setup.sh",
        "hooks": {
            "guard": "verif",
            "enable": "no source hooks are needed: every observation and fault goes through mast's public interfaces (Persist, NodeCache, RemoteConfig); checks build /repo as is via a module replace",
            "baseline_off_cmd": "cd /repo && go test -vet=off -count=1 -timeout 25m ./...",
            "source_commits": [],
            "add_only": True,
        },
        "engines": [
            {"name": "rapid-harness", "path": "/verif/harness", "serves_properties": [c["property_id"] for c in checks],
             "kind_free_text": "Go test binaries (pgregory.net/rapid v1.3.0 generators + explicit oracles: sorted-map model, independent reference implementation of format/hash/layers/MST, recording and fault-injecting stores) driven by /verif/check, which shards seeds over processes and writes evidence"},
        ],
        "checks": checks,
        "not_applicable": [{"property_id": p, "reason": NOT_YET} for p in ALL if p not in CHECKS],
        "notes": "exit 2 from a check means inconclusive/infrastructure (build failure, watchdog), never a verdict. Open known findings are listed in KNOWN_FINDINGS.json; fixed ones are recorded there with their /repo commit.",
    }
    json.dump(m, open(os.path.join(VERIF, "MANIFEST.json"), "w"), indent=1)
    print("MANIFEST.json: %d checks, %d not claimed" % (len(checks), len(m["not_applicable"])))

if __name__ == "__main__":
    main()
