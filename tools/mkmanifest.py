#!/usr/bin/env python3
"""Regenerates /verif/MANIFEST.json from the table below (single source of truth for the claims)."""
import json, os, sys
VERIF = os.path.dirname(os.path.dirname(os.path.abspath(__file__)))

CHECKS = {
 "C01": dict(cat="exploration", design="DESIGN.md §4 C01",
   technique="stateful model-based property testing (rapid) against a sorted-map model; small-scope exhaustive enumeration in the thorough tier",
   text="Generated histories (insert/update/delete/lookup/iterate/clone/persist/reload, every key and value type, bf 2-64, both formats, all cache kinds) are applied to mast and to a sorted-map model and compared after every step; thorough adds every insert/delete word of length <=5 over 4 user keys x 81 layer tables. Held-on-everything-explored, not a proof. One configuration in ten has a dense key universe of 150-900 keys with bulk inserts/deletes (height 2 at the default branch factor 16, up to 6 at bf 3). One configuration in eight uses the reverse of the default key order (a custom KeyCompare), and the key kinds include int32 and uint16 (ordered by their marshaled text). Value kinds include float64 with both zeros (one zero is never written over the other; reads are compared bit for bit).",
   note="Trusted: Go stdlib (encoding/json as the configured default marshaler), rapid, the harness' own model. Nil keys/values not generated."),

 "C02": dict(cat="exploration", design="DESIGN.md §4 C02",
   technique="stateful property testing (rapid): snapshot model of every captured version re-checked after every operation",
   text="Programs over 4 version slots sharing one store and one cache (none / unbounded / FIFO-evicting 1-3 / ARC) with clones, frozen clones, held cursors and retained roots; after every op all other slots, frozen clones and the last 4 retained roots (reloaded through the shared cache and cache-less) are compared with the snapshot taken at capture. Sampled histories, not a proof.",
   note="A failure of the operated tree itself aborts the case (C01's subject). Held cursors read with Min/Forward/Get."),
 "C04": dict(cat="exploration", design="DESIGN.md §4 C04",
   technique="metamorphic + differential property testing: two generated histories to the same entry set vs. an independently built reference MST; small-scope exhaustive enumeration (thorough)",
   text="Two independent histories (separate stores) are driven to the same generated entry set; both final roots and every intermediate persisted root must equal {Link,Height,Size} of the unique MST built by the harness' own reference (own BLAKE2b, encoder, layer functions, height rule). Thorough adds all insertion orders of n+2<=6 user keys x all layer tables in {0,1,2}^(n+2) x bf in {2,3} followed by two deletes. Both tiers enumerate a size-threshold family: branch factors 2-20, 32, 64 x every power bf^h <= 1300, a tree of bf^h+3 consecutive keys taken down to bf^h entries one delete at a time (and back up), persisted at every size.",
   note="Trusted: harness/ref (pinned by C14's golden vectors), encoding/json. Custom marshaler only with the binary format."),
 "C05": dict(cat="exploration", design="DESIGN.md §4 C05",
   technique="round-trip property testing (persist -> load, Root via JSON) inside model-based histories; native coverage-guided fuzzing of literal keys/values in the thorough tier",
   text="At every persist of generated histories (8 key types x 4 value types x 2 formats x default/custom codec x 7 cache kinds) the returned root is loaded four ways (direct / via JSON x shared cache / no cache) and compared with the model entry by entry plus Size, Height, BranchFactor and NodeFormat; histories continue on reloaded trees. Thorough adds a native coverage-guided fuzz target over literal keys and values (strings when valid UTF-8, else byte slices; corpus of lengths around the length-prefix boundaries) that checks stored bytes, names, the reference root and the reload. Value kinds include float64 with both zeros, compared bit for bit after the reload; every persisted root is also opened read-only without ValuesLike and must yield every key.",
   note="Only types whose encoding round-trips are generated (the property's own restriction)."),
 "C06": dict(cat="exploration", design="DESIGN.md §4 C06",
   technique="model-based differential property testing: DiffIter / StartDiff+NextEntry vs. the difference of two model maps",
   text="Ordered pairs of trees (derived by clone/reload + ops, unrelated, identical, empty/emptied, nil old; in memory / persisted / reloaded) are diffed through both interfaces and compared with the model difference (keys, order, kinds, old/new values, once each), including early stop by false / by error at a generated index and read-onlyness. A one-sided report must carry no value for the absent side; callbacks also fail with mast.ErrNoMoreDiffs / a wrapper of it / mast.ErrIterDone; a third of the cases run after an abandoned diff. Either side may also be opened through no cache or a cache of its own, or be an unsaved clone of a clone.",
   note="Both trees share one configuration (precondition of the property)."),
 "C07": dict(cat="exploration", design="DESIGN.md §4 C07",
   technique="property testing with node-set oracle from a recording store + replica round-trip",
   text="For generated ordered pairs of persisted versions the DiffLinks callbacks are compared with the node sets reachable from each root (new\\old subset added subset new, symmetric for removed, once each, names only) and a replica seeded with old + added must load the new version completely. A third of the cases run after another diff was stopped or failed part-way. The two sides may be opened through the shared cache, no cache or a cache of their own.",
   note="Versions whose roots are incomplete abort the case (C03's subject)."),
 "C08": dict(cat="exploration", design="DESIGN.md §4 C08",
   technique="property testing over every Store call with an independent hash and codec (decode/re-encode round-trip)",
   text="Every Store(name, bytes) issued by generated histories is checked against an independent BLAKE2b-256/base64url, decoded and re-encoded byte-identically by the reference codec, and name<->bytes<->content must be functions; equal root names must have equal model contents. Value kinds include float64 with both zeros; the last version is persisted again by a writer opened without ValuesLike (registered types) and must get the same root name.",
   note="Trusted: harness/ref BLAKE2b (RFC 7693 vector checked in C14) and codecs."),
 "C09": dict(cat="exploration", design="DESIGN.md §4 C09",
   technique="property testing with a reference shape validator over every persisted version; small-scope exhaustive enumeration (thorough)",
   text="Every version persisted by generated histories (adversarial generated layer tables, bf 2-64) is decoded from the store and validated clause by clause (levels, childless leaves, global key order, layer==level, pass-through-only empty nodes, Size). Thorough re-uses C04's exhaustive enumeration persisting after every op.",
   note="Validator and decoders are the harness' own."),
 "C10": dict(cat="exploration", design="DESIGN.md §4 C10",
   technique="model-based property testing: cursor walks and SeekIter vs. an index into the sorted model keys",
   text="On generated trees (any residency) cursors start at Min / Max / Ceil(probe of any layer, present or absent) and follow generated Forward/Backward words; Get must equal the model entry at the tracked index or report no entry off the ends; SeekIter(probe) with optional ErrIterDone must yield exactly the entries >= probe. On empty trees every step of the walk is still issued (no call may panic, never an entry).",
   note="Ceil only on a fresh cursor; nothing asserted after stepping off an end."),
 "C13": dict(cat="exploration", design="DESIGN.md §4 C13",
   technique="property testing with a recording store: Store calls of every MakeRoot vs. node sets and key ranges of the previous and new version",
   text="For every MakeRoot of generated histories: writes subset of nodes reachable from the returned root; no modification => no writes and the same root; at unchanged height, rewritten nodes of the previous version contain a modified key in their (closed) range and |writes| <= (2h+2) x #modified keys; IsDirty()==false implies contents == base version, checked after every op.",
   note="Key ranges taken closed; only the stated direction of IsDirty is asserted."),
 "C15": dict(cat="exploration", design="DESIGN.md §4 C15",
   technique="property testing of a cost bound: distinct Persist.Load names per diff call vs. 2D+2 from the reference node sets",
   text="DiffIter and DiffLinks on freshly opened, cache-less trees may load at most 2D+2 distinct nodes (D = symmetric difference of the reachable node sets) and none for identical versions; generated pairs plus enumerated large trees (up to 3000 / 60000 keys) differing in 1-5 keys. Also with the new version opened through a second handle of the same store that reports another NodeURLPrefix, through cold caches, and through the writer's warm cache. Further families: lookups and cursor descents through the writer's cache before the diff (cache smaller than the touched part), and versions that differ by one far key of a high layer next to a dense run (an entry-less intermediate node on one side only), in both directions.",
   note="Loads counted on a recording store without cache."),

 "C03": dict(cat="fault_enumeration", design="DESIGN.md §4 C03",
   technique="fault injection + harness-owned completion order (gated Persist) in generated flush scenarios; enumeration of every single failing Store position",
   text="MakeRoot runs against a gated store that assigns each arriving Store call a generated fate (delay class, straggler held until MakeRoot has returned or 5 ms, failure); on success an atomic in-flight counter must be zero at return and every node reachable from the returned root must be in the store under the name of its own bytes; any failed Store must surface as an error, the tree must stay usable and a retry must produce a complete root; every single failing arrival position is enumerated for flushes of <=12 writes; a second store with another prefix shares the cache. Likewise two of the library's own in-memory stores behind one cache. Shared-cache modes: two of the library's in-memory stores, two S3 stores with different prefixes on one service, and two S3 services (different endpoints) with the same bucket and prefix, each pair behind one node cache: a root returned for the second store must be complete in that store.",
   note="No timing enters a verdict; completion orders are sampled through delays, not enumerated."),
 "C11": dict(cat="exploration", design="DESIGN.md §4 C11",
   technique="randomised concurrent programs under the Go race detector (-race build), frozen lock-free shared environment + real ARC cache environment, per-goroutine model oracle",
   text="2-8 goroutines each own a tree (loaded from shared roots, cloned, or fresh) and run generated programs; in the frozen environment all shared base nodes sit in maps that are never written and are read without locks, with per-tree private overlays, so any write to a shared node is reported by the happens-before race detector regardless of schedule; the real environment shares mast's ARC cache and in-memory store. Violation = a DATA RACE report (process halts, the case was written beforehand) or a tree deviating from its own model. A further 'isolation' environment ends one tree's in-flight read with that tree's own cancellation or a one-off error while a second tree reads the same nodes: the second tree must be unaffected.",
   note="Schedules are sampled, not enumerated; a race cannot be shrunk, the replay is the whole case."),
 "C12": dict(cat="fault_enumeration", design="DESIGN.md §4 C12",
   technique="exhaustive single-fault enumeration per generated (tree, operation): every Load / KeyCompare / Marshal call position, plus generated pairs",
   text="A fault-free dry run counts the fallible callbacks of one operation on a deterministically rebuilt tree; every position is then failed in turn (tree rebuilt each time); when the call returns an error the tree must equal its pre-state (Size, Height, contents) and the retried call must give the normal result and post-state. Two open known findings (Insert growth phase, Delete shrink loop) are excluded by their error call site and reported as KNOWN-FINDING. Each exclusion additionally requires the finding's own precondition (size at the growth threshold / shrink actually due), computed from the model. Re-opened trees read through no cache or through a cold cache of their own (big or one-slot), so that anything an erroring call leaves behind in a cache is seen by the retry.",
   note="Calls that swallow a fault or panic under fault are outside the statement: counted, not judged."),
 "C14": dict(cat="exploration", design="DESIGN.md §4 C14",
   technique="golden reference vectors frozen from the pinned commit + differential property testing against an independent re-implementation of layer, order, hash and encoders",
   text="golden/vectors.json (names, defaults, 6x877 layers, 1172 comparisons, 294 persisted trees with every node's bytes) is re-derived from the tree under test on every run and the frozen bytes must load with the expected entries; generated keys of all 13 built-in types and generated pairs are compared with the reference layer function and order.",
   note="'Every release and host' is sampled on this host; the golden file was cross-checked against harness/ref when generated."),
 "C16": dict(cat="exploration", design="DESIGN.md §4 C16",
   technique="property testing of cost bounds: Persist.Load calls per API call on a recording store without cache",
   text="Persisted trees (generated histories; enumerated large trees of up to 2500/40000 keys) are re-opened cache-less for each probe; LoadMast/Clone/Cursor <= 1 node, Get <= h+1, Insert/Delete at unchanged height <= 2(h+1), and on large trees a single cursor move or a SeekIter stopped at its first entry <= 4(h+1)+4. Clone of an opened-then-modified version <= 1, MakeRoot of one within the sub-linear cap, and a lookup with a key of another type <= h+1. Every Persist.Load call counts (a node read twice is two reads). A further probe opens the version without ValuesLike (a read-only opening that names no value type) and looks up present and absent keys with typed and untyped destinations: still <= h+1.",
   note="The un-numbered clause is checked with a generous sub-linear cap only where the tree is large enough to tell."),
 "C17": dict(cat="fault_enumeration", design="DESIGN.md §4 C17",
   technique="process-level crash-point enumeration: re-executed child with RLIMIT_FSIZE = cut offset (killed by SIGXFSZ or EFBIG returned), every offset for small payloads",
   text="file.Persist.Store runs in a child process whose file-size limit is the cut offset: the kernel kills it at that byte (crash) or the write returns an I/O error; afterwards a fresh store must either not find the node or return it complete, success must mean complete, and a later Store must repair. Every offset 0..len is enumerated for 5 payload sizes in both modes; generated larger payloads and repeated cuts. Further modes: the same store object retries, 2-6 concurrent stores of the node, a context cancelled mid-write, a full file system, and a transient error (limit lifted right after the first failing write). Stores run under the background context, a cancellable context nobody cancels, or a far deadline.",
   note="Tearing below the write syscall is not modelled."),
 "C18": dict(cat="exploration", design="DESIGN.md §4 C18",
   technique="stateful model-based property testing of the Persist contract across backends with a recording, fault-injecting fake S3 client",
   text="Programs of store / re-store / concurrent same-name store / load / load-missing (+ injected Put/Get/body failures for S3) over in-memory, file and S3 backends against a name->bytes model; the fake S3 client must hold exactly bucket / prefix+name objects; thorough adds gofakes3 over HTTP. File-backend write faults with a retry, S3 bodies that break off, a put that fails after its body was read, and a load whose response is held back across a successful store of the same name. A second file store on another directory of the same process must not be affected by what the first one stored or found.",
   note="A name is always re-written with the same bytes."),
 "C19": dict(cat="exploration", design="DESIGN.md §4 C19",
   technique="mutation-based property testing with an independent classifier oracle (+ native coverage-guided fuzzing of the top-node bytes in the thorough tier)",
   text="Valid persisted roots are perturbed (format, missing/truncated/bit-flipped/random/crafted top node with mismatched counts, swapped/duplicated/undecodable keys, huge counts, reversed/constant KeyCompare, raised height, changed branch factor); an independent classifier decides from bytes+root+loader configuration whether the root is bad by the property's list; bad => LoadMast must return an error (no panic, no crash, no tree). Further perturbations: a blank link, and a loader order in which two adjacent keys of the top node are exchanged (also through the writer's warm cache).",
   note="One direction only; unclassified perturbations are not judged."),
}

ALL = ["C%02d" % i for i in range(1, 20)]
NOT_YET = "check not built yet in this session (work in progress; see DESIGN.md §4 for the planned generated-input check)"

def main():
    checks = []
    for pid in ALL:
        if pid not in CHECKS:
            continue
        c = CHECKS[pid]
        checks.append({
            "property_id": pid,
            "quick_cmd": "./check %s quick" % pid,
            "thorough_cmd": "./check %s thorough" % pid,
            "evidence_file": "/verif/evidence/%s.json" % pid,
            "replay_cmd_template": "./check %s --replay {path}" % pid,
            "engine": "rapid-harness",
            "level_claimed": {"category": c["cat"], "text": c["text"], "design_ref": c["design"]},
            "level_note": c["note"],
            "technique": c["technique"],
        })
    m = {
        "version": 1,
        "setup_cmd": "./setup.sh",
        "hooks": {
            "guard": "verif",
            "enable": "no source hooks are needed: every observation and fault goes through mast's public interfaces (Persist, NodeCache, RemoteConfig); checks build /repo as is via a module replace",
            "baseline_off_cmd": "cd /repo && go test -vet=off -count=1 -timeout 25m ./...",
            "source_commits": [],
            "add_only": True,
        },
        "engines": [
            {"name": "rapid-harness", "path": "/verif/harness", "serves_properties": [c["property_id"] for c in checks],
             "kind_free_text": "Go test binaries (pgregory.net/rapid v1.3.0 generators + explicit oracles: sorted-map model, independent reference implementation of format/hash/layers/MST, recording and fault-injecting stores) driven by /verif/check, which shards seeds over processes and writes evidence"},
        ],
        "checks": checks,
        "not_applicable": [{"property_id": p, "reason": NOT_YET} for p in ALL if p not in CHECKS],
        "notes": "exit 2 from a check means inconclusive/infrastructure (build failure, watchdog), never a verdict. Open known findings are listed in KNOWN_FINDINGS.json; fixed ones are recorded there with their /repo commit.",
    }
    json.dump(m, open(os.path.join(VERIF, "MANIFEST.json"), "w"), indent=1)
    print("MANIFEST.json: %d checks, %d not claimed" % (len(checks), len(m["not_applicable"])))

if __name__ == "__main__":
    main()
