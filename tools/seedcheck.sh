#!/bin/bash
# usage: tools/seedcheck.sh <dir with patch.diff [demo_test.go] [meta.json]> [confirm] <check ids...|all>
#   confirm : also verify the seed itself (applies, builds, baseline passes, demo fails with / passes without the patch)
# Runs the listed quick checks against a scratch copy of /repo with the patch applied. Never touches /repo.
DIR=$(readlink -f "$1"); shift
CONFIRM=0; if [ "$1" = "confirm" ]; then CONFIRM=1; shift; fi
CHECKS="$@"; [ "$CHECKS" = "all" ] && CHECKS="C01 C02 C03 C04 C05 C06 C07 C08 C09 C10 C11 C12 C13 C14 C15 C16 C17 C18 C19"
export GOFLAGS=-mod=mod GOPROXY=off GOSUMDB=off GOTOOLCHAIN=local
D=$(mktemp -d /tmp/mrepo.XXXXXX)
VERIF_HOME=$(cd "$(dirname "$(readlink -f "$0")")/.." && pwd)
TAG=$(python3 -c 'import sys,zlib; print("%08x" % (zlib.crc32(sys.argv[1].encode()) & 0xFFFFFFFF))' "$D")
trap 'rm -rf "$D" "$D".*.log; rm -f "$VERIF_HOME"/.build/bin/*-$TAG.test "$VERIF_HOME"/.build/alt-$TAG.*; rm -rf "$VERIF_HOME"/.build/out-$TAG "$VERIF_HOME"/.build/evidence-scratch/$TAG' EXIT
if [ -n "$SEED_BASE" ]; then git -C /repo archive "$SEED_BASE" | tar -x -C "$D"; else rsync -a --exclude .git /repo/ "$D"/; fi
demo_pkg() { # package dir of the demo, from its package clause / meta
  local f="$DIR/demo_test.go"; local pk=$(grep -m1 '^package ' "$f" | awk '{print $2}')
  case "$pk" in file|file_test) echo persist/file;; s3|s3_test) echo persist/s3;; *) echo .;; esac
}
if [ $CONFIRM = 1 ] && [ -f "$DIR/demo_test.go" ]; then
  PK=$(demo_pkg); cp "$DIR/demo_test.go" "$D/$PK/zz_seed_demo_test.go"
  ( cd "$D/$PK" && go test -count=1 -run "$(grep -o 'func Test[A-Za-z0-9_]*' zz_seed_demo_test.go | sed 's/func //' | paste -sd'|')" . >"$D".demo_clean.log 2>&1 ) && echo "demo on unchanged tree: PASS (expected)" || { echo "demo on unchanged tree: FAIL (seed rejected)"; tail -15 "$D".demo_clean.log; }
  rm -f "$D/$PK/zz_seed_demo_test.go"
fi
( cd "$D" && patch -s -p1 < "$DIR/patch.diff" ) || { echo "PATCH DOES NOT APPLY"; exit 3; }
( cd "$D" && go build ./... ) || { echo "PATCHED TREE DOES NOT BUILD"; exit 3; }
if [ $CONFIRM = 1 ]; then
  ok=1; for i in 1 2; do ( cd "$D" && go test -count=1 ./... >"$D".base.log 2>&1 ) || { grep -q "commands.Result is nil, not uint" "$D".base.log || ok=0; }; done
  [ $ok = 1 ] && echo "baseline with patch: PASS (expected)" || { echo "baseline with patch: FAIL (seed rejected)"; grep -v '^ok' "$D".base.log | head -20; }
  if [ -f "$DIR/demo_test.go" ]; then
    PK=$(demo_pkg); cp "$DIR/demo_test.go" "$D/$PK/zz_seed_demo_test.go"
    ( cd "$D/$PK" && go test -count=1 -race -run "$(grep -o 'func Test[A-Za-z0-9_]*' zz_seed_demo_test.go | sed 's/func //' | paste -sd'|')" . >"$D".demo_patched.log 2>&1 ) && echo "demo with patch: PASS (seed does not demonstrate a violation?)" || echo "demo with patch: FAIL (expected)"
    rm -f "$D/$PK/zz_seed_demo_test.go"
  fi
fi
cd "$VERIF_HOME"
for c in $CHECKS; do
  OUT=$(VERIF_REPO="$D" ./check $c quick 2>&1); rc=$?
  echo "check $c: exit=$rc $(echo "$OUT" | grep -m1 -A1 '^VIOLATION' | tail -1 | cut -c1-260)"
  [ $rc = 2 ] && echo "$OUT" | tail -5
  [ $rc != 0 ] && echo "$OUT" > "$DIR/check_$c.out"
done
