#!/bin/sh
# usage: tools/with_patch.sh <patchfile|-R:commit> <check args...>
# Runs a check against a scratch copy of /repo with a patch applied; removes the copy afterwards.
set -e
P="$1"; shift
D=$(mktemp -d /tmp/mrepo.XXXXXX)
trap 'rm -rf "$D"; rm -f /verif/.build/bin/*-????????.test /verif/.build/alt-*' EXIT
rsync -a --exclude .git /repo/ "$D"/
case "$P" in
  -R:*) git -C /repo show "${P#-R:}" | (cd "$D" && patch -s -R -p1) ;;
  *) (cd "$D" && patch -s -p1 < "$P") ;;
esac
(cd "$D" && GOFLAGS=-mod=mod GOPROXY=off go build ./... ) || { echo "PATCHED TREE DOES NOT BUILD"; exit 3; }
if [ -n "$BASELINE" ]; then (cd "$D" && GOFLAGS=-mod=mod GOPROXY=off go test -count=1 ./... 2>&1 | tail -5); fi
cd /verif && VERIF_REPO="$D" ./check "$@" || true
