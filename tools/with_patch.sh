#!/bin/sh
# usage: tools/with_patch.sh <patchfile|-R:commit> <check args...>
# Runs a check against a scratch copy of /repo with a patch applied; removes the copy afterwards.
set -e
P="$1"; shift
D=$(mktemp -d /tmp/mrepo.XXXXXX)
VERIF_HOME=$(cd "$(dirname "$(readlink -f "$0")")/.." && pwd)
TAG=$(python3 -c 'import sys,zlib; print("%08x" % (zlib.crc32(sys.argv[1].encode()) & 0xFFFFFFFF))' "$D")
trap 'rm -rf "$D"; rm -f "$VERIF_HOME"/.build/bin/*-$TAG.test "$VERIF_HOME"/.build/alt-$TAG.*; rm -rf "$VERIF_HOME"/.build/out-$TAG "$VERIF_HOME"/.build/evidence-scratch/$TAG' EXIT
rsync -a --exclude .git /repo/ "$D"/
case "$P" in
  -R:*) git -C /repo show "${P#-R:}" | (cd "$D" && patch -s -R -p1) ;;
  *) (cd "$D" && patch -s -p1 < "$P") ;;
esac
(cd "$D" && GOFLAGS=-mod=mod GOPROXY=off go build ./... ) || { echo "PATCHED TREE DOES NOT BUILD"; exit 3; }
if [ -n "$BASELINE" ]; then (cd "$D" && GOFLAGS=-mod=mod GOPROXY=off go test -count=1 ./... 2>&1 | tail -5); fi
cd "$VERIF_HOME" && VERIF_REPO="$D" ./check "$@" || true
