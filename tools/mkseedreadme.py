#!/usr/bin/env python3
"""Regenerates seeded/README.md from the output of tools/seedmatrix.sh.
usage: tools/mkseedreadme.py <commit the matrix ran at> <matrix file> [<matrix file> ...]
Later files override earlier ones for the seeds they list."""
import glob, json, os, re, sys

os.chdir(os.path.join(os.path.dirname(os.path.abspath(__file__)), ".."))
commit, files = sys.argv[1], sys.argv[2:]
res = {}
for f in files:
    for line in open(f):
        m = re.match(r"^(C\d\d-\d+)((?: C\d\d:\S+)+)", line)
        if not m:
            continue
        res[m.group(1)] = dict(x.split(":") for x in m.group(2).split())
ids = sorted((os.path.basename(d) for d in glob.glob("seeded/C*-*")), key=lambda s: (s[:3], int(s[4:])))
rej = sorted(os.path.basename(d) for d in glob.glob("seeded/rejected/C*"))
caught = [i for i in ids if any(v == "CAUGHT" for v in res.get(i, {}).values())]
missing = [i for i in ids if i not in res]
missed = [i for i in ids if i in res and i not in caught]
out = []
out.append("# Seeded defects\n")
out.append(
    "Each directory holds one change to jrhy/mast that compiles, passes the repository's own test suite and breaks one listed "
    "property (patch.diff, demo_test.go, meta.json). They were written by independent sub-agents that saw only the property text and a "
    "scratch worktree, in seven rounds (meta.json: round; rounds 2-4 and 6 were told which ideas were taken or asked for blind spots, "
    "rounds 5 and 7 are unprompted samples of what a plausible change looks like), then confirmed with "
    "`tools/seedcheck.sh <dir> confirm <check>` (patch applies and builds, the repository's suite passes twice, the demonstration fails "
    "with the patch and passes without). `tools/seedmatrix.sh` re-runs every seed against the quick check of its property (plus the "
    "checks in also.txt; base.txt names an older base commit where a later repair neutralises the seed). Proposals that were not kept "
    "are in rejected/ (%d) with the reason.\n" % len(rej))
out.append("Last matrix: /verif commit %s (quick tier, seed 1): **%d of %d caught**%s%s.\n" % (
    commit, len(caught), len(ids) - len(missing),
    "; not caught: " + ", ".join(missed) if missed else "",
    "; not in this matrix: " + ", ".join(missing) if missing else ""))
out.append("| seed | round | change | caught by (quick) | not caught by | history |")
out.append("|---|---|---|---|---|---|")
for i in ids:
    m = json.load(open("seeded/%s/meta.json" % i))
    r = res.get(i, {})
    summ = " ".join(str(m.get("summary", "")).split())[:150].replace("|", "/")
    hist = " ".join(str(m.get("history", "")).split()).replace("|", "/")
    out.append("| %s | %s | %s | %s | %s | %s |" % (
        i, m.get("round", ""), summ,
        " ".join(k for k, v in r.items() if v == "CAUGHT"),
        " ".join(k for k, v in r.items() if v != "CAUGHT"), hist))
open("seeded/README.md", "w").write("\n".join(out) + "\n")
print("%d seeds, %d caught, %d missed, %d not in matrix" % (len(ids), len(caught), len(missed), len(missing)))
