#!/bin/bash
# usage: tools/mkregress.sh <commit> <prop> <key>   -- reverts a fix in a scratch copy, runs the check, saves the shrunk replay as regress/<prop>/<key>.json
C=$1; P=$2; K=$3
OUT=$(tools/with_patch.sh -R:$C $P quick 2>&1)
F=$(echo "$OUT" | grep -m1 '^VIOLATION' | sed 's/.*replay=//')
if [ -z "$F" ]; then echo "$C $P $K: NO VIOLATION: $(echo "$OUT" | tail -3)"; exit 1; fi
mkdir -p regress/$P && cp "$F" regress/$P/$K.json && echo "$C $P $K: saved ($(echo "$OUT" | grep -m1 detail | cut -c1-160))"
