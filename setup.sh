#!/bin/sh
# Offline build of the harness test binaries (warms the Go build cache; checks rebuild from /repo's working tree anyway).
set -e
cd "$(dirname "$0")/harness"
export GOFLAGS=-mod=mod GOPROXY=off GOSUMDB=off GOTOOLCHAIN=local

mkdir -p ../.build/bin
go test -c -vet=off -o ../.build/bin/checks.test ./checks
if [ -d backends ] && ls backends/*_test.go >/dev/null 2>&1; then
  go test -c -vet=off -o ../.build/bin/backends.test ./backends
fi
if ls checks/*race* >/dev/null 2>&1 || true; then
  go test -c -vet=off -race -o ../.build/bin/checks-race.test ./checks
fi
echo setup ok
