package backends

import (
	"bytes"
	"context"
	"encoding/base64"
	"errors"
	"fmt"
	"io"
	"os"
	"path/filepath"
	"sync"
	"syscall"
	"time"

	"github.com/aws/aws-sdk-go/aws"
	"github.com/aws/aws-sdk-go/aws/awserr"
	"github.com/aws/aws-sdk-go/aws/request"
	"github.com/aws/aws-sdk-go/service/s3"
	"github.com/jrhy/mast"
	"github.com/jrhy/mast/persist/file"
	s3persist "github.com/jrhy/mast/persist/s3"
	"github.com/jrhy/mast/persist/s3test"
	"pgregory.net/rapid"
	"verif/harness/run"
)

// C18 — every store backend honours the node-store contract.

type C18Op struct {
	Kind    string `json:"op"`   // store | restore | cstore (concurrent same-name stores) | load | loadmissing | putfail | getfail | bodyfail
	Name    int    `json:"name"` // index into the case's name list
	Payload int    `json:"payload,omitempty"`
	N       int    `json:"n,omitempty"` // concurrency for cstore
	E       int    `json:"e,omitempty"` // which error a failing PutObject returns (index into putErrKinds)
}

type C18Case struct {
	Backend string `json:"backend"` // memory | file | s3fake | gofakes3
	// Repoint (s3fake): the store is constructed for another bucket and prefix and its exported BucketName / Prefix
	// fields are then set to the case's bucket and prefix: the configured bucket is what the fields say
	Repoint  bool     `json:"repoint,omitempty"`
	Bucket   string   `json:"bucket,omitempty"`
	Prefix   string   `json:"prefix,omitempty"`
	Names    []string `json:"names"`
	Payloads []string `json:"payloads"` // base64
	Ops      []C18Op  `json:"ops"`
}

// fakeS3 is a recording S3Interface with error injection.
type fakeS3 struct {
	mu                   sync.Mutex
	objects              map[string][]byte // bucket + "\x00" + key
	failPut              bool
	failPutOnceAfterBody bool  // the next PutObject reads the body, then fails (e.g. a lost response); later puts work
	putErr               error // what failing puts return (default errFakePut)
	failGet              bool
	failBody             bool
	shortBody            bool // the body ends early with io.ErrUnexpectedEOF although ContentLength announced everything
	puts                 int
	gets                 int
	// holdGet, when non-nil, makes the next GetObject look its object up, announce itself on getArrived and
	// then withhold its response until holdGet is closed (a slow response that is already decided)
	holdGet    chan struct{}
	getArrived chan struct{}
}

var errFakePut = errors.New("fake s3: injected PutObject failure")
var errFakeGet = errors.New("fake s3: injected GetObject failure")

// putErrKinds are the errors a failing PutObject returns (C18Op.E): a plain error, and the request failures a real
// S3 endpoint sends for throttling, time-outs and internal errors.
var putErrKinds = []error{
	errFakePut,
	awserr.NewRequestFailure(awserr.New("SlowDown", "Please reduce your request rate.", nil), 503, "REQ1"),
	awserr.NewRequestFailure(awserr.New("RequestTimeout", "Your socket connection to the server was not read from or written to within the timeout period.", nil), 400, "REQ2"),
	awserr.NewRequestFailure(awserr.New("InternalError", "We encountered an internal error. Please try again.", nil), 500, "REQ3"),
	awserr.New("RequestError", "send request failed", errors.New("read: connection reset by peer")),
}
var errFakeBody = errors.New("fake s3: injected body read failure")

// shortReader delivers its data and then fails like a connection that dropped mid-body.
type shortReader struct {
	data []byte
	off  int
}

func (r *shortReader) Read(p []byte) (int, error) {
	if r.off >= len(r.data) {
		return 0, io.ErrUnexpectedEOF
	}
	n := copy(p, r.data[r.off:])
	r.off += n
	return n, nil
}
func (r *shortReader) Close() error { return nil }

type failingBody struct{}

func (failingBody) Read(p []byte) (int, error) { return 0, errFakeBody }
func (failingBody) Close() error               { return nil }

func (f *fakeS3) DeleteObjectWithContext(ctx aws.Context, in *s3.DeleteObjectInput, opts ...request.Option) (*s3.DeleteObjectOutput, error) {
	return nil, errors.New("fake s3: delete is not part of the node-store contract")
}

// ctxBody is a response body that, like the body of a real HTTP response, cannot be read any more once the
// context of its request has ended.
type ctxBody struct {
	ctx aws.Context
	rc  io.ReadCloser
}

func (b ctxBody) Read(p []byte) (int, error) {
	if err := b.ctx.Err(); err != nil {
		return 0, err
	}
	return b.rc.Read(p)
}
func (b ctxBody) Close() error { return b.rc.Close() }

func (f *fakeS3) GetObjectWithContext(ctx aws.Context, in *s3.GetObjectInput, opts ...request.Option) (*s3.GetObjectOutput, error) {
	f.mu.Lock()
	out, err := f.getLocked(in)
	if out != nil && out.Body != nil {
		out.Body = ctxBody{ctx: ctx, rc: out.Body}
	}
	hold, arrived := f.holdGet, f.getArrived
	f.holdGet, f.getArrived = nil, nil
	f.mu.Unlock()
	if hold != nil {
		close(arrived)
		<-hold
	}
	return out, err
}

func (f *fakeS3) getLocked(in *s3.GetObjectInput) (*s3.GetObjectOutput, error) {
	f.gets++
	if f.failGet {
		return nil, errFakeGet
	}
	if in.Bucket == nil || in.Key == nil {
		return nil, errors.New("fake s3: nil bucket or key")
	}
	b, ok := f.objects[*in.Bucket+"\x00"+*in.Key]
	if !ok {
		return nil, awserr.New(s3.ErrCodeNoSuchKey, "The specified key does not exist.", nil)
	}
	if f.failBody {
		return &s3.GetObjectOutput{Body: failingBody{}}, nil
	}
	if f.shortBody {
		return &s3.GetObjectOutput{ContentLength: aws.Int64(int64(len(b))), Body: &shortReader{data: append([]byte(nil), b[:len(b)/2]...)}}, nil
	}
	return &s3.GetObjectOutput{ContentLength: aws.Int64(int64(len(b))), Body: io.NopCloser(bytes.NewReader(append([]byte(nil), b...)))}, nil
}

func (f *fakeS3) PutObjectWithContext(ctx aws.Context, in *s3.PutObjectInput, opts ...request.Option) (*s3.PutObjectOutput, error) {
	f.mu.Lock()
	failing := f.failPut
	once := f.failPutOnceAfterBody
	f.failPutOnceAfterBody = false
	f.puts++
	f.mu.Unlock()
	perr := f.putErr
	if perr == nil {
		perr = errFakePut
	}
	if failing {
		return nil, perr
	}
	if once {
		if in.Body != nil {
			io.ReadAll(in.Body)
		}
		return nil, perr
	}
	if in.Bucket == nil || in.Key == nil || in.Body == nil {
		return nil, errors.New("fake s3: nil bucket, key or body")
	}
	b, err := io.ReadAll(in.Body)
	if err != nil {
		return nil, err
	}
	f.mu.Lock()
	defer f.mu.Unlock()
	f.objects[*in.Bucket+"\x00"+*in.Key] = b
	return &s3.PutObjectOutput{}, nil
}

const nameAlphabet = "ABCDEFGHIJKLMNOPQRSTUVWXYZabcdefghijklmnopqrstuvwxyz0123456789-_"

func genC18(t *rapid.T, tier string) C18Case {
	backends := []string{"memory", "file", "s3fake", "s3fake"}
	if tier == "thorough" {
		backends = append(backends, "gofakes3")
	}
	c := C18Case{Backend: rapid.SampledFrom(backends).Draw(t, "backend")}
	c.Bucket = rapid.StringMatching(`[a-z][a-z0-9-]{2,12}`).Draw(t, "bucket")
	c.Prefix = rapid.SampledFrom([]string{"", "node/", "a/b/c/", "p-", "x"}).Draw(t, "prefix")
	nn := rapid.IntRange(1, 6).Draw(t, "nnames")
	seen := map[string]bool{}
	for len(c.Names) < nn {
		l := rapid.SampledFrom([]int{1, 2, 5, 43, 43, 43, 64}).Draw(t, "namelen")
		b := make([]byte, l)
		for i := range b {
			b[i] = nameAlphabet[rapid.IntRange(0, len(nameAlphabet)-1).Draw(t, "ch")]
		}
		if b[0] == '-' { // a leading dash is fine for S3 and files alike, keep it; but avoid the special names . and ..
		}
		s := string(b)
		if len(c.Names) > 0 && rapid.IntRange(0, 3).Draw(t, "sibling") == 0 {
			// a name that differs from an earlier one only in its last character (neighbouring letters of the alphabet
			// share their high bits), or only in the case of one letter
			prev := []byte(c.Names[rapid.IntRange(0, len(c.Names)-1).Draw(t, "siblingof")])
			i := len(prev) - 1
			if rapid.Bool().Draw(t, "siblingcase") {
				i = rapid.IntRange(0, len(prev)-1).Draw(t, "siblingpos")
			}
			at := 0
			for j := range nameAlphabet {
				if nameAlphabet[j] == prev[i] {
					at = j
				}
			}
			prev[i] = nameAlphabet[at^1]
			s = string(prev)
		}
		if seen[s] {
			continue
		}
		seen[s] = true
		c.Names = append(c.Names, s)
	}
	np := rapid.IntRange(1, 4).Draw(t, "npayloads")
	for i := 0; i < np; i++ {
		var b []byte
		switch rapid.IntRange(0, 5).Draw(t, "pkind") {
		case 5:
			b = nil // the empty byte string as a nil slice
		case 0:
			b = []byte{}
		case 1:
			b = rapid.SliceOfN(rapid.Byte(), 1, 64).Draw(t, "binary")
		case 2:
			n := rapid.IntRange(1000, 70000).Draw(t, "biglen")
			if tier == "thorough" && rapid.IntRange(0, 20).Draw(t, "huge") == 0 {
				n = 1 << 20
			}
			b = make([]byte, n)
			for j := range b {
				b[j] = byte(j * 131)
			}
		default:
			b = []byte(rapid.StringN(0, 40, 80).Draw(t, "text"))
		}
		if b == nil {
			c.Payloads = append(c.Payloads, "nil")
			continue
		}
		c.Payloads = append(c.Payloads, base64.StdEncoding.EncodeToString(b))
	}
	kinds := []string{"store", "store", "store", "restore", "cstore", "load", "load", "load", "loadmissing"}
	if c.Backend == "s3fake" {
		kinds = append(kinds, "putfail", "putfailonce", "getfail", "bodyfail", "bodyshort", "heldload")
		c.Repoint = rapid.IntRange(0, 3).Draw(t, "repoint") == 0
	}
	if c.Backend == "file" {
		kinds = append(kinds, "filefault", "filefault", "fileaway", "otherdir", "otherdir")
	}
	no := rapid.IntRange(1, 14).Draw(t, "nops")
	for i := 0; i < no; i++ {
		c.Ops = append(c.Ops, C18Op{
			Kind:    rapid.SampledFrom(kinds).Draw(t, "op"),
			Name:    rapid.IntRange(0, nn-1).Draw(t, "name"),
			Payload: rapid.IntRange(0, np-1).Draw(t, "payload"),
			N:       rapid.IntRange(2, 6).Draw(t, "n"),
			E:       rapid.SampledFrom([]int{0, 0, 1, 2, 3, 4}).Draw(t, "e"),
		})
	}
	return c
}

func runC18(c C18Case, o *run.Obs) error {
	ctx := context.Background()
	var p mast.Persist
	var p2 mast.Persist
	model2 := map[string][]byte{}
	var fake *fakeS3
	fileDir := ""
	desc := fmt.Sprintf("[backend=%s bucket=%q prefix=%q]", c.Backend, c.Bucket, c.Prefix)
	switch c.Backend {
	case "memory":
		p = mast.NewInMemoryStore()
	case "file":
		base := os.Getenv("VERIF_OUT")
		if base == "" {
			base = os.TempDir()
		}
		dir, err := os.MkdirTemp(base, "c18-")
		if err != nil {
			return fmt.Errorf("harness: %w", err)
		}
		defer os.RemoveAll(dir)
		p = file.NewPersistForPath(dir)
		fileDir = dir
	case "s3fake":
		fake = &fakeS3{objects: map[string][]byte{}}
		sp := s3persist.NewPersist(fake, "https://s3.example", c.Bucket, c.Prefix)
		if c.Repoint {
			sp = s3persist.NewPersist(fake, "https://s3.example", "template-bucket", "template/")
			sp.BucketName, sp.Prefix = c.Bucket, c.Prefix
		}
		p = &sp
	case "gofakes3":
		client, bucket, closer := s3test.Client()
		defer closer()
		sp := s3persist.NewPersist(client, client.Endpoint, bucket, c.Prefix)
		p = &sp
	default:
		return fmt.Errorf("harness: unknown backend")
	}
	payloads := make([][]byte, len(c.Payloads))
	for i, s := range c.Payloads {
		if s == "nil" {
			continue // stays a nil slice
		}
		payloads[i], _ = base64.StdEncoding.DecodeString(s)
		if payloads[i] == nil {
			payloads[i] = []byte{}
		}
	}
	model := map[string][]byte{}
	sawEmpty, sawMissing, sawConcurrent := false, false, false
	// byte slices handed out by earlier Loads: they are the caller's now and must keep their contents whatever the
	// store does later
	type heldSlice struct {
		name string
		b    []byte
		when string
	}
	var held []heldSlice
	checkHeld := func(when string) error {
		for _, h := range held {
			if want := model[h.name]; !bytes.Equal(h.b, want) {
				return fmt.Errorf("%s %s: the %d bytes that Load(%q) returned at %s have changed since (the store overwrote a slice it had handed out)", desc, when, len(want), h.name, h.when)
			}
		}
		return nil
	}
	load := func(when, name string) error {
		var b []byte
		var err error
		if perr := safely(func() { b, err = p.Load(ctx, name) }); perr != nil {
			return fmt.Errorf("%s %s: Load(%q) panicked: %v", desc, when, name, perr)
		}
		want, ok := model[name]
		if !ok {
			if err == nil {
				return fmt.Errorf("%s %s: Load(%q) of a name never written returned %d bytes and no error", desc, when, name, len(b))
			}
			return nil
		}
		if err != nil {
			return fmt.Errorf("%s %s: Load(%q) after a successful write failed: %v", desc, when, name, err)
		}
		if !bytes.Equal(b, want) {
			return fmt.Errorf("%s %s: Load(%q) returned %d bytes, the %d bytes written differ", desc, when, name, len(b), len(want))
		}
		if len(held) < 8 {
			held = append(held, heldSlice{name, b, when})
		}
		return checkHeld(when)
	}
	for i, op := range c.Ops {
		name := c.Names[op.Name%len(c.Names)]
		payload := payloads[op.Payload%len(payloads)]
		when := fmt.Sprintf("op %d %s", i, op.Kind)
		// a name is bound to one byte string (content addressing): later writes of a known name reuse its bytes
		if old, ok := model[name]; ok {
			payload = old
		} else if old, ok := model2[name]; ok {
			payload = old
		}
		switch op.Kind {
		case "store", "restore":
			if op.Kind == "restore" {
				if _, ok := model[name]; !ok {
					continue
				}
			}
			var err error
			if perr := safely(func() { err = p.Store(ctx, name, payload) }); perr != nil {
				return fmt.Errorf("%s %s: Store(%q, %d bytes) panicked: %v", desc, when, name, len(payload), perr)
			}
			if err != nil {
				return fmt.Errorf("%s %s: Store(%q, %d bytes) failed on a healthy backend: %v", desc, when, name, len(payload), err)
			}
			model[name] = payload
			if len(payload) == 0 {
				sawEmpty = true
			}
			if err := load(when, name); err != nil {
				return err
			}
		case "cstore":
			var wg sync.WaitGroup
			errs := make([]error, op.N)
			lerrs := make([]error, op.N)
			for j := 0; j < op.N; j++ {
				wg.Add(1)
				go func(j int) {
					defer wg.Done()
					errs[j] = p.Store(ctx, name, payload)
					if errs[j] == nil {
						// this writer's own write has succeeded: from now on the name loads, whatever the other writers do
						b, err := p.Load(ctx, name)
						if err != nil {
							lerrs[j] = fmt.Errorf("Load right after this writer's successful Store failed: %v", err)
						} else if !bytes.Equal(b, payload) {
							lerrs[j] = fmt.Errorf("Load right after this writer's successful Store returned %d bytes, %d were written", len(b), len(payload))
						}
					}
				}(j)
			}
			wg.Wait()
			for _, err := range errs {
				if err != nil {
					return fmt.Errorf("%s %s: one of %d concurrent Store(%q) calls failed: %v", desc, when, op.N, name, err)
				}
			}
			for _, err := range lerrs {
				if err != nil {
					return fmt.Errorf("%s %s: %d concurrent Store(%q) calls: %v", desc, when, op.N, name, err)
				}
			}
			model[name] = payload
			sawConcurrent = true
			if err := load(when, name); err != nil {
				return err
			}
		case "load":
			if err := load(when, name); err != nil {
				return err
			}
		case "loadmissing":
			missing := name + "-never-written"
			if len(missing) > 64 {
				missing = missing[len(missing)-64:]
			}
			delete(model, missing)
			sawMissing = true
			if err := load(when, missing); err != nil {
				return err
			}
		case "heldload":
			// a Load of a name not written yet is under way (its lookup is done, its response is held back); the name is
			// then written successfully; a Load that STARTS after that write must return the bytes
			if _, ok := model[name]; ok {
				continue
			}
			hold, arrived := make(chan struct{}), make(chan struct{})
			fake.mu.Lock()
			fake.holdGet, fake.getArrived = hold, arrived
			fake.mu.Unlock()
			type res struct {
				b   []byte
				err error
			}
			r1 := make(chan res, 1)
			go func() {
				var r res
				_ = safely(func() { r.b, r.err = p.Load(ctx, name) })
				r1 <- r
			}()
			var firstEarly *res
			select {
			case <-arrived:
			case r := <-r1:
				// answered without asking the client: nothing is pending, so there is no overlap to look at
				firstEarly = &r
			case <-time.After(120 * time.Second):
				close(hold)
				return fmt.Errorf("harness: the first Load neither reached the S3 client nor returned within 120 s")
			}
			if firstEarly != nil {
				close(hold)
				fake.mu.Lock()
				fake.holdGet, fake.getArrived = nil, nil
				fake.mu.Unlock()
				if firstEarly.err == nil {
					return fmt.Errorf("%s %s: Load(%q) of a name never written returned %d bytes and no error", desc, when, name, len(firstEarly.b))
				}
				o.Label("heldload:answered-without-the-client")
				continue
			}
			if err := p.Store(ctx, name, payload); err != nil {
				close(hold)
				return fmt.Errorf("%s %s: Store(%q) while a Load of that name is pending failed: %v", desc, when, name, err)
			}
			model[name] = payload
			r2 := make(chan res, 1)
			go func() {
				var r res
				_ = safely(func() { r.b, r.err = p.Load(ctx, name) })
				r2 <- r
			}()
			var second res
			select {
			case second = <-r2:
				close(hold)
			case <-time.After(60 * time.Millisecond):
				// the second Load waits for something: let the held response go and see what it returns
				close(hold)
				select {
				case second = <-r2:
				case <-time.After(120 * time.Second):
					return fmt.Errorf("harness: a Load did not return within 120 s")
				}
			}
			first := <-r1
			if first.err == nil && !bytes.Equal(first.b, payload) {
				return fmt.Errorf("%s %s: the Load that was pending during the write returned %d bytes and no error; the name holds %d bytes", desc, when, len(first.b), len(payload))
			}
			if second.err != nil || !bytes.Equal(second.b, payload) {
				return fmt.Errorf("%s %s: Load(%q) started after a successful Store of that name (while an older Load of it was still pending) returned %d bytes, err=%v; %d bytes were written", desc, when, name, len(second.b), second.err, len(payload))
			}
			o.Label("load-overlapping-a-write")
		case "otherdir":
			// a second file store on ANOTHER directory in the same process (e.g. a replica): what one of them holds says
			// nothing about the other
			if fileDir == "" {
				continue
			}
			if p2 == nil {
				d2, err := os.MkdirTemp(filepath.Dir(fileDir), "c18-replica-")
				if err != nil {
					return fmt.Errorf("harness: %w", err)
				}
				defer os.RemoveAll(d2)
				p2 = file.NewPersistForPath(d2)
			}
			if op.N%2 == 0 {
				// first into the primary directory (unless it is there already), then into the other one
				if err := p.Store(ctx, name, payload); err != nil {
					return fmt.Errorf("%s %s: Store(%q) failed: %v", desc, when, name, err)
				}
				model[name] = payload
			}
			if _, there := model2[name]; !there {
				if b, err := p2.Load(ctx, name); err == nil {
					return fmt.Errorf("%s %s: the second directory never received %q, yet its store loads %d bytes", desc, when, name, len(b))
				}
			}
			if err := p2.Store(ctx, name, payload); err != nil {
				return fmt.Errorf("%s %s: Store(%q) into the second directory failed: %v", desc, when, name, err)
			}
			model2[name] = payload
			if b, err := p2.Load(ctx, name); err != nil || !bytes.Equal(b, payload) {
				return fmt.Errorf("%s %s: after a successful Store(%q) into a second directory (another file store in the same process) its Load returned %d bytes, err=%v; %d bytes were written", desc, when, name, len(b), err, len(payload))
			}
		case "fileaway":
			// the node file of a written name is out of reach for a moment (moved away and back, as on a remounted or
			// briefly unavailable volume): a Load meanwhile may fail, but once the file is back the name loads again
			// through the same store object
			if _, ok := model[name]; !ok || fileDir == "" {
				continue
			}
			path := filepath.Join(fileDir, name)
			if err := os.Rename(path, path+".away"); err != nil {
				continue // the backend keeps this node elsewhere: nothing to take away
			}
			_, lerr := p.Load(ctx, name)
			if err := os.Rename(path+".away", path); err != nil {
				return fmt.Errorf("harness: cannot put the node file back: %w", err)
			}
			if lerr == nil {
				o.Label("fileaway:load-succeeded-meanwhile")
			}
			if err := load(when+" (after the node file was out of reach for one Load and is back)", name); err != nil {
				return err
			}
		case "putfail":
			injected := putErrKinds[op.E%len(putErrKinds)]
			fake.mu.Lock()
			fake.failPut, fake.putErr = true, injected
			fake.mu.Unlock()
			err := p.Store(ctx, name, payload)
			fake.mu.Lock()
			fake.failPut, fake.putErr = false, nil
			fake.mu.Unlock()
			if err == nil {
				return fmt.Errorf("%s %s: every PutObject failed (%v) but Store returned nil", desc, when, injected)
			}
		case "putfailonce":
			fake.mu.Lock()
			fake.failPutOnceAfterBody, fake.putErr = true, putErrKinds[op.E%len(putErrKinds)]
			fake.mu.Unlock()
			err := p.Store(ctx, name, payload)
			fake.mu.Lock()
			fake.failPutOnceAfterBody, fake.putErr = false, nil
			fake.mu.Unlock()
			if err == nil {
				// the backend error was absorbed (e.g. by a retry): then the write must really have happened
				model[name] = payload
				if err := load(when+" (Store reported success although a PutObject failed after its body was read)", name); err != nil {
					return err
				}
			} else if _, known := model[name]; !known {
				// nothing may be visible under the name unless it is complete
				fake.mu.Lock()
				got, exists := fake.objects[c.Bucket+"\x00"+c.Prefix+name]
				fake.mu.Unlock()
				if exists && !bytes.Equal(got, payload) {
					return fmt.Errorf("%s %s: a failed Store left an object with other bytes behind", desc, when)
				}
				if exists {
					model[name] = payload
				}
			}
		case "filefault":
			// the write is cut by an I/O error (file size limit) inside this process; the same store object is then used again
			if _, known := model[name]; known || len(payload) < 2 {
				continue
			}
			var old syscall.Rlimit
			if err := syscall.Getrlimit(syscall.RLIMIT_FSIZE, &old); err != nil {
				return fmt.Errorf("harness: getrlimit: %w", err)
			}
			lim := syscall.Rlimit{Cur: uint64(len(payload) / 2), Max: old.Max}
			if err := syscall.Setrlimit(syscall.RLIMIT_FSIZE, &lim); err != nil {
				return fmt.Errorf("harness: setrlimit: %w", err)
			}
			serr := p.Store(ctx, name, payload)
			if err := syscall.Setrlimit(syscall.RLIMIT_FSIZE, &old); err != nil {
				panic("harness: cannot restore RLIMIT_FSIZE: " + err.Error())
			}
			if serr == nil {
				model[name] = payload
				if err := load(when+" (Store reported success although the write was cut short)", name); err != nil {
					return err
				}
				continue
			}
			if err := load(when+" (after the failed write)", name); err != nil { // not in the model: must not be loadable
				return err
			}
			// the backend error was returned; storing again through the same object must now work
			if err := p.Store(ctx, name, payload); err != nil {
				return fmt.Errorf("%s %s: Store(%q) after an earlier failed write failed: %v", desc, when, name, err)
			}
			model[name] = payload
			if err := load(when+" (re-store after a failed write)", name); err != nil {
				return err
			}
		case "getfail", "bodyfail", "bodyshort":
			if _, ok := model[name]; !ok {
				continue
			}
			if op.Kind == "bodyshort" {
				if len(model[name]) < 2 {
					continue
				}
				fake.mu.Lock()
				fake.shortBody = true
				fake.mu.Unlock()
				b, err := p.Load(ctx, name)
				fake.mu.Lock()
				fake.shortBody = false
				fake.mu.Unlock()
				if err == nil {
					return fmt.Errorf("%s %s: the object body broke off after %d of %d bytes but Load returned %d bytes and no error", desc, when, len(model[name])/2, len(model[name]), len(b))
				}
				continue
			}
			fake.mu.Lock()
			fake.failGet, fake.failBody = op.Kind == "getfail", op.Kind == "bodyfail"
			fake.mu.Unlock()
			b, err := p.Load(ctx, name)
			fake.mu.Lock()
			fake.failGet, fake.failBody = false, false
			fake.mu.Unlock()
			want := errFakeGet
			if op.Kind == "bodyfail" {
				want = errFakeBody
			}
			if !errors.Is(err, want) {
				return fmt.Errorf("%s %s: the S3 client failed (%v) but Load returned %d bytes, err=%v", desc, when, want, len(b), err)
			}
		}
	}
	if fake != nil {
		// objects seen by the fake are exactly the modelled ones under bucket / prefix+name
		fake.mu.Lock()
		defer fake.mu.Unlock()
		if len(fake.objects) != len(model) {
			return fmt.Errorf("%s: the S3 client holds %d objects, %d names were written", desc, len(fake.objects), len(model))
		}
		for name, b := range model {
			got, ok := fake.objects[c.Bucket+"\x00"+c.Prefix+name]
			if !ok {
				var keys []string
				for k := range fake.objects {
					keys = append(keys, k)
				}
				return fmt.Errorf("%s: no object %q in bucket %q; the client saw %q", desc, c.Prefix+name, c.Bucket, keys)
			}
			if !bytes.Equal(got, b) {
				return fmt.Errorf("%s: object %q holds other bytes than were stored", desc, c.Prefix+name)
			}
		}
	}
	o.NonTrivial = sawEmpty && sawMissing && sawConcurrent
	o.Labelf("backend=%s", c.Backend)
	opsSeen := map[string]bool{}
	for _, op := range c.Ops {
		if !opsSeen[op.Kind] {
			opsSeen[op.Kind] = true
			o.Labelf("op=%s", op.Kind)
		}
	}
	if sawEmpty {
		o.Label("empty-payload")
	}
	if sawMissing {
		o.Label("missing-name-load")
	}
	if sawConcurrent {
		o.Label("concurrent-same-name-store")
	}
	return nil
}

func safely(f func()) (err error) {
	defer func() {
		if r := recover(); r != nil {
			err = fmt.Errorf("%v", r)
		}
	}()
	f()
	return nil
}

func init() {
	run.Register(run.Prop[C18Case]{
		ID:    "C18",
		Level: "exploration",
		Rule: "case = backend (in-memory, file in a fresh directory, S3 through a recording fake S3Interface with a generated bucket and prefix; thorough adds the repository's gofakes3 HTTP server on localhost) + 1-6 names from the node-name alphabet [A-Za-z0-9_-] (lengths 1-64, mostly 43) + 1-4 payloads (empty, binary, text, 1-70 kB; thorough up to 1 MiB) + a program of 1-14 ops: store, store again, 2-6 concurrent stores of the same name and bytes, load, load of a never-written name, and for S3 injected PutObject / GetObject / body-read failures (a put that fails once after its body was read, puts that fail on every attempt with plain or AWS-style throttling / time-out / internal / connection-reset errors, bodies that break off or die with the request context, a load whose response is held back across a store of that name); for the file backend write faults with a retry through the same store object, a node file out of reach for one load, and stores through a SECOND file store on another directory of the same process; slices handed out by Load are re-checked after every later operation; each concurrent writer loads right after its own successful store. Oracle: a name->bytes model; loads return exactly the stored bytes; a missing name gives an error, never data; injected backend errors come back (errors.Is); the fake S3 client holds exactly the objects bucket / prefix+name with the modelled bytes. " +
			"Non-trivial = the program contains an empty payload AND a missing-name load AND a concurrent same-name store; distinct by case hash",
		Assumptions: []string{"a name is always re-written with the same bytes (content addressing: the contract only covers 'the same name and bytes again')", "missing objects surface as errors from the S3 client (as S3 does)"},
		Gen:         genC18,
		Run:         runC18,
	})
}
