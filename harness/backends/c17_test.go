package backends

import (
	"bytes"
	"context"
	"encoding/base64"
	"fmt"
	"os"
	"os/exec"
	"os/signal"
	"path/filepath"
	"strconv"
	"sync"
	"syscall"
	"time"
	"unsafe"

	"github.com/jrhy/mast/persist/file"
	"pgregory.net/rapid"
	"verif/harness/ref"
	"verif/harness/run"
)

// C17 — the file store never exposes or keeps a partial node.

type C17Cut struct {
	N int `json:"n"` // the write is cut after N bytes (RLIMIT_FSIZE)
	// Mode: crash (process killed by SIGXFSZ) | ioerr (write returns EFBIG) | ioerr-same (EFBIG in this process; the same
	// store object then stores again) | ioerr-concurrent (EFBIG in this process while 2-6 goroutines store the same node) |
	// ctxcancel (the context handed to Store reports cancellation from its N-th query on) |
	// transient (child process: the first write that reaches byte N fails with a short write and EFBIG, after which the
	// limit is lifted - a transient I/O error) |
	// fullfs (the node directory is a tmpfs of N KiB of its own, smaller than the node: the write runs out of space
	// there, wherever the implementation keeps its temporary files; needs the right to mount, skipped otherwise)
	Mode string `json:"mode"`
}

type C17Case struct {
	Payload string   `json:"payload"` // base64
	Cuts    []C17Cut `json:"cuts"`    // successive interrupted attempts, each in a fresh process
}

// storeCtx picks the kind of context a Store call runs under from the case's numbers: the background context, a cancellable
// one that nobody cancels, or one with a deadline an hour away. None of them ever ends during a case.
func storeCtx(k int) context.Context {
	switch k % 3 {
	case 1:
		ctx, cancel := context.WithCancel(context.Background())
		keepCancels = append(keepCancels, cancel)
		return ctx
	case 2:
		ctx, cancel := context.WithTimeout(context.Background(), time.Hour)
		keepCancels = append(keepCancels, cancel)
		return ctx
	}
	return context.Background()
}

var keepCancels []context.CancelFunc

// c17Child is the body of the re-executed child process.
func c17Child() {
	dir := os.Getenv("VERIF_C17_DIR")
	name := os.Getenv("VERIF_C17_NAME")
	payload, err := os.ReadFile(os.Getenv("VERIF_C17_PAYLOAD_FILE"))
	if err != nil {
		fmt.Fprintln(os.Stderr, "payload file:", err)
		os.Exit(90)
	}
	n, _ := strconv.Atoi(os.Getenv("VERIF_C17_N"))
	if os.Getenv("VERIF_C17_MODE") == "killvisible" {
		// no limit: the parent kills this process the moment the node's name becomes visible
		p := file.NewPersistForPath(dir)
		if err := p.Store(context.Background(), name, payload); err != nil {
			os.Exit(3)
		}
		os.Exit(0)
	}
	lim := syscall.Rlimit{Cur: uint64(n), Max: uint64(n)}
	if os.Getenv("VERIF_C17_MODE") == "transient" {
		// a transient condition: the first write that hits the limit fails (short write + EFBIG), and the limit is
		// lifted as soon as the kernel has signalled it, so that whatever the store does next finds a healthy file system
		var old syscall.Rlimit
		if err := syscall.Getrlimit(syscall.RLIMIT_FSIZE, &old); err != nil {
			fmt.Fprintln(os.Stderr, "getrlimit:", err)
			os.Exit(90)
		}
		lim.Max = old.Max
		ch := make(chan os.Signal, 4)
		signal.Notify(ch, syscall.SIGXFSZ)
		go func() {
			for range ch {
				_ = syscall.Setrlimit(syscall.RLIMIT_FSIZE, &old)
			}
		}()
	}
	if err := syscall.Setrlimit(syscall.RLIMIT_FSIZE, &lim); err != nil {
		fmt.Fprintln(os.Stderr, "setrlimit:", err)
		os.Exit(90)
	}
	if os.Getenv("VERIF_C17_MODE") == "crash" {
		// Go ignores SIGXFSZ; restore the default action so the kernel kills the
		// process at the byte where the limit is hit (a true crash point).
		type sigaction struct {
			handler  uintptr
			flags    uint64
			restorer uintptr
			mask     uint64
		}
		var sa sigaction // SIG_DFL
		if _, _, e := syscall.RawSyscall6(syscall.SYS_RT_SIGACTION, uintptr(syscall.SIGXFSZ), uintptr(unsafe.Pointer(&sa)), 0, 8, 0, 0); e != 0 {
			fmt.Fprintln(os.Stderr, "rt_sigaction:", e)
			os.Exit(91)
		}
	}
	p := file.NewPersistForPath(dir)
	if err := p.Store(storeCtx(n+len(payload)), name, payload); err != nil {
		os.Exit(3) // the write reported failure
	}
	os.Exit(0) // the write reported success
}

func genC17(t *rapid.T, tier string) C17Case {
	maxLen := 300
	if tier == "thorough" {
		maxLen = 70000
	}
	n := rapid.IntRange(1, maxLen).Draw(t, "len")
	if rapid.IntRange(0, 4).Draw(t, "large") == 0 {
		n = rapid.IntRange(65537, 300000).Draw(t, "largelen") // more than one 64 KiB chunk
	}
	if rapid.IntRange(0, 3).Draw(t, "pagey") == 0 {
		n = rapid.SampledFrom([]int{4095, 4096, 4097, 8192}).Draw(t, "pagelen")
		if tier != "thorough" && n > 4097 {
			n = 4096
		}
	}
	seed := rapid.IntRange(0, 255).Draw(t, "fill")
	b := make([]byte, n)
	for i := range b {
		b[i] = byte(seed + i*31)
	}
	c := C17Case{Payload: base64.StdEncoding.EncodeToString(b)}
	nc := rapid.IntRange(1, 3).Draw(t, "ncuts")
	for i := 0; i < nc; i++ {
		cut := C17Cut{Mode: rapid.SampledFrom([]string{"crash", "ioerr", "ioerr-same", "ioerr-concurrent", "ctxcancel", "transient"}).Draw(t, "mode")}
		switch rapid.IntRange(0, 4).Draw(t, "where") {
		case 0:
			cut.N = rapid.SampledFrom([]int{0, 1, n - 1, n, n + 1}).Draw(t, "edge")
		case 1:
			cut.N = rapid.SampledFrom([]int{4095, 4096, 4097}).Draw(t, "page")
		default:
			cut.N = rapid.IntRange(0, n).Draw(t, "n")
		}
		if cut.N < 0 {
			cut.N = 0
		}
		c.Cuts = append(c.Cuts, cut)
	}
	return c
}

func enumC17(tier string, shard, nshards int, yield func(C17Case) bool) (bool, string) {
	lens := []int{1, 2, 17, 64, 96}
	if tier == "thorough" {
		lens = []int{1, 2, 3, 17, 64, 96, 200, 517}
	}
	i := 0
	for _, l := range lens {
		b := make([]byte, l)
		for j := range b {
			b[j] = byte(j*7 + l)
		}
		p := base64.StdEncoding.EncodeToString(b)
		for n := 0; n <= l; n++ {
			for _, mode := range []string{"crash", "ioerr", "ioerr-same", "transient"} {
				i++
				if i%nshards != shard {
					continue
				}
				if !yield(C17Case{Payload: p, Cuts: []C17Cut{{N: n, Mode: mode}}}) {
					return false, ""
				}
			}
		}
	}
	// the node directory on a small file system of its own (3 cases per run)
	for _, kib := range []int{64, 128} {
		for _, l := range []int{kib*1024 + 40000, 3 * kib * 1024} {
			i++
			if i%nshards != shard {
				continue
			}
			b := make([]byte, l)
			for j := range b {
				b[j] = byte(j * 13)
			}
			if !yield(C17Case{Payload: base64.StdEncoding.EncodeToString(b), Cuts: []C17Cut{{N: kib, Mode: "fullfs"}}}) {
				return false, ""
			}
		}
	}
	for _, mib := range []int{8, 24} {
		i++
		if i%nshards != shard {
			continue
		}
		b := make([]byte, 4096)
		for j := range b {
			b[j] = byte(j*13 + mib)
		}
		if !yield(C17Case{Payload: base64.StdEncoding.EncodeToString(b), Cuts: []C17Cut{{N: mib, Mode: "killvisible"}}}) {
			return false, ""
		}
	}
	return true, fmt.Sprintf("payload lengths %v x EVERY cut offset 0..len x {process killed at that byte, write returns an I/O error at that byte}", lens)
}

func runChild(dir, name, payloadFile string, cut C17Cut) (exit int, err error) {
	cmd := exec.Command(os.Args[0], "-test.run", "^$")
	cmd.Env = append(os.Environ(), "VERIF_C17_CHILD=1", "VERIF_C17_DIR="+dir, "VERIF_C17_NAME="+name, "VERIF_C17_PAYLOAD_FILE="+payloadFile,
		"VERIF_C17_N="+strconv.Itoa(cut.N), "VERIF_C17_MODE="+cut.Mode)
	var stderr bytes.Buffer
	cmd.Stderr = &stderr
	err = cmd.Run()
	if err == nil {
		return 0, nil
	}
	if ee, ok := err.(*exec.ExitError); ok {
		if ws, ok := ee.Sys().(syscall.WaitStatus); ok && ws.Signaled() {
			return -int(ws.Signal()), nil // killed: a crash
		}
		code := ee.ExitCode()
		if code == 90 || code == 91 {
			return code, fmt.Errorf("child setup failed: %s", stderr.String())
		}
		return code, nil
	}
	return -1, err
}

// runChildKillWhenVisible starts a child that stores the node without any limit and kills it as soon as a file of the node's
// name can be seen in the directory (a crash at the very moment of publication). Returns the child's exit status
// (negative: killed) and whether the name was seen before the child ended.
func runChildKillWhenVisible(dir, name, payloadFile string) (exit int, seen bool, err error) {
	cmd := exec.Command(os.Args[0], "-test.run", "^$")
	cmd.Env = append(os.Environ(), "VERIF_C17_CHILD=1", "VERIF_C17_DIR="+dir, "VERIF_C17_NAME="+name, "VERIF_C17_PAYLOAD_FILE="+payloadFile,
		"VERIF_C17_N=0", "VERIF_C17_MODE=killvisible")
	if err := cmd.Start(); err != nil {
		return 0, false, err
	}
	done := make(chan error, 1)
	go func() { done <- cmd.Wait() }()
	path := filepath.Join(dir, name)
	for {
		select {
		case werr := <-done:
			if werr == nil {
				return 0, seen, nil
			}
			if ee, ok := werr.(*exec.ExitError); ok {
				if ws, ok := ee.Sys().(syscall.WaitStatus); ok && ws.Signaled() {
					return -int(ws.Signal()), seen, nil
				}
				return ee.ExitCode(), seen, nil
			}
			return -1, seen, werr
		default:
		}
		if !seen {
			if _, err := os.Lstat(path); err == nil {
				seen = true
				cmd.Process.Kill()
			}
		}
	}
}

func runC17(c C17Case, o *run.Obs) error {
	payload, err := base64.StdEncoding.DecodeString(c.Payload)
	if err != nil {
		return fmt.Errorf("harness: bad payload")
	}
	base := os.Getenv("VERIF_OUT")
	if base == "" {
		base = os.TempDir()
	}
	dir, err := os.MkdirTemp(base, "c17-")
	if err != nil {
		return fmt.Errorf("harness: %w", err)
	}
	defer os.RemoveAll(dir)
	// the payload travels to the child processes through a file next to (not inside) the node directory
	payloadFile := dir + ".payload"
	if err := os.WriteFile(payloadFile, payload, 0o644); err != nil {
		return fmt.Errorf("harness: %w", err)
	}
	defer os.Remove(payloadFile)
	name := ref.NodeName(payload)
	ctx := storeCtx(len(payload) + len(c.Cuts))
	check := func(when string, mustBeComplete bool) error {
		p := file.NewPersistForPath(dir) // restart: a fresh store on the directory
		b, err := p.Load(ctx, name)
		if err != nil {
			if mustBeComplete {
				return fmt.Errorf("%s: the write reported success but Load fails: %v", when, err)
			}
			return nil
		}
		if !bytes.Equal(b, payload) {
			return fmt.Errorf("%s: Load returns %d of %d bytes: a partial node is exposed under its final name", when, len(b), len(payload))
		}
		return nil
	}
	nontrivial := false
	for i, cut := range c.Cuts {
		if cut.Mode == "fullfs" {
			// the node directory becomes a tmpfs of cut.N KiB: the node does not fit
			if err := syscall.Mount("tmpfs", dir, "tmpfs", 0, fmt.Sprintf("size=%dk", cut.N)); err != nil {
				o.Label("skipped:mount-not-permitted")
				continue
			}
			unmounted := false
			unmount := func() {
				if !unmounted {
					syscall.Unmount(dir, syscall.MNT_DETACH)
					unmounted = true
				}
			}
			defer unmount()
			p := file.NewPersistForPath(dir)
			serr := p.Store(ctx, name, payload)
			when := fmt.Sprintf("payload of %d bytes into a node directory on a file system of %d KiB (Store returned %v)", len(payload), cut.N, serr)
			if err := check(when, serr == nil); err != nil {
				unmount()
				return err
			}
			// more room: the same node is stored again and must now be complete
			if err := syscall.Mount("tmpfs", dir, "tmpfs", syscall.MS_REMOUNT, fmt.Sprintf("size=%dk", 8*cut.N+len(payload)/256)); err != nil {
				unmount()
				return fmt.Errorf("harness: remount: %w", err)
			}
			if err := p.Store(ctx, name, payload); err != nil {
				unmount()
				return fmt.Errorf("%s: after the file system was enlarged, storing the node again failed: %v", when, err)
			}
			if err := check(when+", then enlarged and stored again", true); err != nil {
				unmount()
				return err
			}
			unmount()
			nontrivial = true
			o.Label("mode=fullfs")
			// the final re-store below runs on the (now empty) plain directory again
			continue
		}
		if cut.Mode == "killvisible" {
			// a large node; the writing process is killed the moment the node's name becomes visible. The node directory is
			// (when mounting is permitted) a file system of its own, i.e. another one than the system's temporary directory.
			mounted := syscall.Mount("tmpfs", dir, "tmpfs", 0, "size=131072k") == nil
			big := bytes.Repeat(payload, (cut.N<<20)/len(payload)+1)
			bigName := ref.NodeName(big)
			bigFile := dir + ".bigpayload"
			if err := os.WriteFile(bigFile, big, 0o644); err != nil {
				if mounted {
					syscall.Unmount(dir, syscall.MNT_DETACH)
				}
				return fmt.Errorf("harness: %w", err)
			}
			exit, seen, err := runChildKillWhenVisible(dir, bigName, bigFile)
			os.Remove(bigFile)
			var verr error
			if err != nil {
				verr = fmt.Errorf("harness: child process: %w", err)
			} else {
				p := file.NewPersistForPath(dir)
				b, lerr := p.Load(ctx, bigName)
				when := fmt.Sprintf("node of %d bytes (own file system: %v), writer killed the moment the name became visible (seen=%v, child exit %d)", len(big), mounted, seen, exit)
				if lerr == nil && !bytes.Equal(b, big) {
					verr = fmt.Errorf("%s: Load returns %d of %d bytes: a partial node is exposed under its final name", when, len(b), len(big))
				} else if lerr != nil && exit == 0 {
					verr = fmt.Errorf("%s: the write reported success but Load fails: %v", when, lerr)
				} else if err := p.Store(ctx, bigName, big); err != nil {
					verr = fmt.Errorf("%s: storing the node again failed: %v", when, err)
				} else if b, lerr := p.Load(ctx, bigName); lerr != nil || !bytes.Equal(b, big) {
					verr = fmt.Errorf("%s: after storing the node again Load returns %d bytes, err=%v", when, len(b), lerr)
				}
			}
			if mounted {
				syscall.Unmount(dir, syscall.MNT_DETACH)
			} else {
				os.Remove(filepath.Join(dir, bigName))
			}
			if verr != nil {
				return verr
			}
			nontrivial = true
			o.Label("mode=killvisible")
			if mounted {
				o.Label("killvisible:own-file-system")
			}
			continue
		}
		if cut.Mode == "ctxcancel" {
			// Store with a context that reports cancellation from its N-th query on: whatever Store makes of it,
			// success must mean complete and nothing partial may appear under the name
			p := file.NewPersistForPath(dir)
			cctx := &countdownCtx{Context: context.Background(), after: cut.N % 12}
			serr := p.Store(cctx, name, payload)
			when := fmt.Sprintf("payload of %d bytes, attempt %d with a context cancelled from its query #%d on (Store returned %v)", len(payload), i+1, cut.N%12, serr)
			if err := check(when, serr == nil); err != nil {
				return err
			}
			if len(payload) > 65536 {
				nontrivial = true
			}
			o.Label("mode=ctxcancel")
			continue
		}
		if cut.Mode == "ioerr-concurrent" {
			p := file.NewPersistForPath(dir)
			var old syscall.Rlimit
			if err := syscall.Getrlimit(syscall.RLIMIT_FSIZE, &old); err != nil {
				return fmt.Errorf("harness: getrlimit: %w", err)
			}
			lim := syscall.Rlimit{Cur: uint64(cut.N), Max: old.Max}
			if err := syscall.Setrlimit(syscall.RLIMIT_FSIZE, &lim); err != nil {
				return fmt.Errorf("harness: setrlimit: %w", err)
			}
			k := 2 + cut.N%5
			errs := make([]error, k)
			var wg sync.WaitGroup
			for j := 0; j < k; j++ {
				wg.Add(1)
				go func(j int) {
					defer wg.Done()
					errs[j] = p.Store(ctx, name, payload)
				}(j)
			}
			wg.Wait()
			if err := syscall.Setrlimit(syscall.RLIMIT_FSIZE, &old); err != nil {
				panic("harness: cannot restore RLIMIT_FSIZE: " + err.Error())
			}
			anyOK := false
			for _, e := range errs {
				if e == nil {
					anyOK = true
				}
			}
			when := fmt.Sprintf("payload of %d bytes, attempt %d: %d concurrent stores of the node with writes cut at byte %d (results %v)", len(payload), i+1, k, cut.N, errs)
			if err := check(when, anyOK); err != nil {
				return err
			}
			if cut.N > 0 && cut.N < len(payload) {
				nontrivial = true
			}
			o.Label("mode=ioerr-concurrent")
			continue
		}
		if cut.Mode == "ioerr-same" {
			// the write fails with EFBIG inside this process; the SAME store object is then asked to store again
			p := file.NewPersistForPath(dir)
			var old syscall.Rlimit
			if err := syscall.Getrlimit(syscall.RLIMIT_FSIZE, &old); err != nil {
				return fmt.Errorf("harness: getrlimit: %w", err)
			}
			lim := syscall.Rlimit{Cur: uint64(cut.N), Max: old.Max}
			if err := syscall.Setrlimit(syscall.RLIMIT_FSIZE, &lim); err != nil {
				return fmt.Errorf("harness: setrlimit: %w", err)
			}
			serr := p.Store(ctx, name, payload)
			if err := syscall.Setrlimit(syscall.RLIMIT_FSIZE, &old); err != nil {
				panic("harness: cannot restore RLIMIT_FSIZE: " + err.Error())
			}
			when := fmt.Sprintf("payload of %d bytes, attempt %d cut at byte %d (I/O error in-process, Store returned %v)", len(payload), i+1, cut.N, serr)
			if err := check(when, serr == nil); err != nil {
				return err
			}
			// the same object stores the node again, now without a limit: must succeed and be complete
			if err := p.Store(ctx, name, payload); err != nil {
				return fmt.Errorf("%s: storing the node again through the same store object failed: %v", when, err)
			}
			if b, err := p.Load(ctx, name); err != nil || !bytes.Equal(b, payload) {
				return fmt.Errorf("%s: after storing the node again through the same store object, Load returns %d bytes, err=%v", when, len(b), err)
			}
			if cut.N > 0 && cut.N < len(payload) {
				nontrivial = true
			}
			o.Label("mode=ioerr-same")
			continue
		}
		exit, err := runChild(dir, name, payloadFile, cut)
		if err != nil {
			return fmt.Errorf("harness: child process: %w", err)
		}
		when := fmt.Sprintf("payload of %d bytes, attempt %d cut at byte %d (%s, child exit %d)", len(payload), i+1, cut.N, cut.Mode, exit)
		if err := check(when, exit == 0); err != nil {
			return err
		}
		if cut.N > 0 && cut.N < len(payload) {
			nontrivial = true
		}
		o.Labelf("mode=%s", cut.Mode)
		switch {
		case exit == 0:
			o.Label("child:write-succeeded")
		case exit < 0:
			o.Label("child:killed-at-cut")
		default:
			o.Label("child:write-returned-error")
		}
	}
	// restart and store the node again: must repair, not skip
	p := file.NewPersistForPath(dir)
	if err := p.Store(ctx, name, payload); err != nil {
		return fmt.Errorf("payload of %d bytes after cuts %+v: storing the node again failed: %v", len(payload), c.Cuts, err)
	}
	if err := check(fmt.Sprintf("payload of %d bytes after cuts %+v and a complete re-store", len(payload), c.Cuts), true); err != nil {
		return err
	}
	// a second fresh store object sees the same
	if b, err := file.NewPersistForPath(dir).Load(ctx, name); err != nil || !bytes.Equal(b, payload) {
		return fmt.Errorf("payload of %d bytes: after the re-store a fresh store loads %d bytes, err=%v", len(payload), len(b), err)
	}
	_ = filepath.Join
	o.NonTrivial = nontrivial
	o.Labelf("cuts=%d", len(c.Cuts))
	return nil
}

func init() {
	run.Register(run.Prop[C17Case]{
		ID:    "C17",
		Level: "fault_enumeration",
		Rule: "case = payload (1-300 bytes quick, up to 70000 thorough, incl. page-sized) + 1-3 successive interrupted Store attempts, each in a re-executed child process whose RLIMIT_FSIZE is the cut offset N: mode 'crash' restores the default SIGXFSZ action so the kernel kills the process at byte N, mode 'ioerr' lets the write return EFBIG at byte N; enumerated: EVERY offset 0..len for payloads of 1,2,17,64,96 bytes (thorough up to 517) in both modes. Stores run under the background context, a cancellable context nobody cancels, or a far deadline. Oracle after each attempt, from a fresh store object on the directory: Load(name) is an error or the complete bytes; child exit 0 (write reported success) => complete; finally Store(name, bytes) succeeds and Load returns the complete bytes (repair, not skip). " +
			"Non-trivial = some cut strictly inside the payload (0 < N < len); distinct by case hash",
		Assumptions: []string{"tearing below the write syscall (power loss, page cache) is not modelled", "runs as a user allowed to lower RLIMIT_FSIZE of its children"},
		Gen:         genC17,
		Run:         runC17,
		Enumerate:   enumC17,
	})
}

// countdownCtx reports cancellation from its `after`-th Err/Done query on.
type countdownCtx struct {
	context.Context
	mu    sync.Mutex
	n     int
	after int
	done  chan struct{}
}

func (c *countdownCtx) tick() bool {
	c.mu.Lock()
	defer c.mu.Unlock()
	c.n++
	return c.n > c.after
}

func (c *countdownCtx) Err() error {
	if c.tick() {
		return context.Canceled
	}
	return nil
}

func (c *countdownCtx) Done() <-chan struct{} {
	c.mu.Lock()
	if c.done == nil {
		c.done = make(chan struct{})
	}
	ch := c.done
	c.mu.Unlock()
	if c.tick() {
		c.mu.Lock()
		select {
		case <-ch:
		default:
			close(ch)
		}
		c.mu.Unlock()
	}
	return ch
}
