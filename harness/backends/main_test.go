package backends

import (
	"os"
	"testing"

	"verif/harness/run"
)

// TestProp runs the property named by VERIF_PROP (see /verif/check).
func TestProp(t *testing.T) { run.Main(t) }

func TestMain(m *testing.M) {
	if os.Getenv("VERIF_C17_CHILD") != "" {
		c17Child() // never returns
	}
	os.Exit(m.Run())
}
