// Package run is the common driver for all property checks: registry, rapid
// loop, replay of saved cases, known-finding witnesses, statistics and
// replay-file output.  The Python driver ../check invokes the test binaries
// and merges the per-process statistics into evidence files.
package run

import (
	"encoding/binary"
	"encoding/json"
	"fmt"
	"hash/fnv"
	"os"
	"path/filepath"
	"runtime/debug"
	"sort"
	"strconv"
	"strings"
	"testing"
	"time"

	"pgregory.net/rapid"
)

// Obs collects what a single case observed.
type Obs struct {
	open       map[string]bool
	NonTrivial bool
	labels     []string
	excluded   map[string]int
	Tier       string
}

// Label adds a class label to the case (histogram in the evidence).
func (o *Obs) Label(s string) { o.labels = append(o.labels, s) }

// Labelf adds a formatted class label.
func (o *Obs) Labelf(f string, a ...interface{}) { o.labels = append(o.labels, fmt.Sprintf(f, a...)) }

// Excl reports whether the known finding `key` is open; the caller must then
// skip exactly the trigger of that finding. Each skip is counted.
func (o *Obs) Excl(key string) bool {
	if o.open[key] {
		if o.excluded == nil {
			o.excluded = map[string]int{}
		}
		o.excluded[key]++
		return true
	}
	return false
}

// IsOpen is Excl without counting.
func (o *Obs) IsOpen(key string) bool { return o.open[key] }

// Prop is a registered property check over cases of type C.
type Prop[C any] struct {
	ID          string
	Level       string // exploration | fault_enumeration
	Rule        string
	Assumptions []string
	// Gen draws a case; all randomness must come from t.
	Gen func(t *rapid.T, tier string) C
	// Run decides one case. nil = property held on this case.
	Run func(c C, o *Obs) error
	// Enumerate, when set, yields a deterministic finite family of cases
	// (small-scope exhaustive runs, golden vectors) for this shard.
	Enumerate func(tier string, shard, nshards int, yield func(C) bool) (exhaustive bool, note string)
	// Describe may return a compact rendering of a case for evidence samples.
	Describe func(c C) interface{}
	// WriteBefore: write each case to $VERIF_OUT/current-case.json before it runs
	// (for checks whose failure halts the process, e.g. the race detector).
	WriteBefore bool
}

type entry struct {
	id, level, rule string
	assumptions     []string
	gen             func(t *rapid.T, tier string) interface{}
	runCase         func(c interface{}, o *Obs) error
	decode          func(b []byte) (interface{}, error)
	enumerate       func(tier string, shard, nshards int, yield func(interface{}) bool) (bool, string)
	describe        func(c interface{}) interface{}
	hasGen          bool
	writeBefore     bool
}

var registry = map[string]*entry{}

// Register adds a property to the registry.
func Register[C any](p Prop[C]) {
	e := &entry{id: p.ID, level: p.Level, rule: p.Rule, assumptions: p.Assumptions, hasGen: p.Gen != nil, writeBefore: p.WriteBefore}
	if p.Gen != nil {
		e.gen = func(t *rapid.T, tier string) interface{} { return p.Gen(t, tier) }
	}
	e.runCase = func(c interface{}, o *Obs) error { return p.Run(c.(C), o) }
	e.decode = func(b []byte) (interface{}, error) {
		var c C
		if err := json.Unmarshal(b, &c); err != nil {
			return nil, err
		}
		return c, nil
	}
	if p.Enumerate != nil {
		e.enumerate = func(tier string, shard, nshards int, yield func(interface{}) bool) (bool, string) {
			return p.Enumerate(tier, shard, nshards, func(c C) bool { return yield(c) })
		}
	}
	if p.Describe != nil {
		e.describe = func(c interface{}) interface{} { return p.Describe(c.(C)) }
	}
	registry[p.ID] = e
}

// Finding is one entry of KNOWN_FINDINGS.json.
type Finding struct {
	Property string `json:"property"`
	Key      string `json:"key"`
	Status   string `json:"status"` // open | fixed
	Commit   string `json:"commit,omitempty"`
	What     string `json:"what"`
	Witness  string `json:"witness,omitempty"` // path relative to /verif of a replayable case
	Masks    string `json:"masks,omitempty"`
}

type findingsFile struct {
	Findings []Finding `json:"findings"`
}

type replayFile struct {
	Property string          `json:"property"`
	Error    string          `json:"error,omitempty"`
	Origin   string          `json:"origin,omitempty"`
	Case     json.RawMessage `json:"case"`
}

type statsFile struct {
	Property      string                 `json:"property"`
	Level         string                 `json:"level"`
	Rule          string                 `json:"rule"`
	Assumptions   []string               `json:"assumptions"`
	Tier          string                 `json:"tier"`
	Seed          uint64                 `json:"seed"`
	Evaluations   int                    `json:"evaluations"`
	Generated     int                    `json:"generated"`
	Enumerated    int                    `json:"enumerated"`
	Replayed      int                    `json:"replayed"`
	NonTrivial    int                    `json:"nontrivial_evaluations"`
	Classes       map[string]int         `json:"classes"`
	Excluded      map[string]int         `json:"excluded_by_known_finding"`
	Samples       []interface{}          `json:"samples"`
	Violations    int                    `json:"violations"`
	ViolationFile string                 `json:"violation_file,omitempty"`
	ViolationErr  string                 `json:"violation_error,omitempty"`
	KnownFindings []string               `json:"known_findings_reproduced"`
	StaleFindings []string               `json:"known_findings_not_reproduced"`
	Exhaustive    bool                   `json:"exhaustive_subrun"`
	EnumNote      string                 `json:"enumeration_note,omitempty"`
	WallS         float64                `json:"wall_s"`
	Extra         map[string]interface{} `json:"extra,omitempty"`
}

// Extra lets a check publish additional measured counters into its evidence.
var Extra = map[string]interface{}{}

// AddExtra accumulates a measured counter into the evidence of this run.
func AddExtra(key string, n int) {
	cur, _ := Extra[key].(int)
	Extra[key] = cur + n
}

type state struct {
	e        *entry
	st       statsFile
	hashes   map[uint64]struct{}
	outDir   string
	open     map[string]bool
	tier     string
	failCase interface{}
	failErr  error
	nSamples int
	nNTSamp  int
}

func safeRun(e *entry, c interface{}, o *Obs) (err error) {
	defer func() {
		if r := recover(); r != nil {
			err = fmt.Errorf("panic in check: %v\n%s", r, debug.Stack())
		}
	}()
	err = e.runCase(c, o)
	if err != nil && strings.HasPrefix(err.Error(), "harness:") {
		// a problem of the harness itself (temp dir, child process, rlimit): never a verdict
		fmt.Println("INFRASTRUCTURE (no verdict):", err)
		os.Exit(3)
	}
	return err
}

func caseHash(c interface{}) uint64 {
	b, _ := json.Marshal(c)
	h := fnv.New64a()
	h.Write(b)
	return h.Sum64()
}

func (s *state) eval(c interface{}, record bool) error {
	o := &Obs{open: s.open, Tier: s.tier}
	if s.e.writeBefore {
		cb, _ := json.Marshal(c)
		rf := replayFile{Property: s.e.id, Origin: "case being executed when the process halted", Case: cb}
		b, _ := json.Marshal(rf)
		os.MkdirAll(s.outDir, 0o755)
		os.WriteFile(filepath.Join(s.outDir, "current-case.json"), b, 0o644)
	}
	err := safeRun(s.e, c, o)
	if !record {
		return err
	}
	s.st.Evaluations++
	for _, l := range o.labels {
		s.st.Classes[l]++
	}
	for k, n := range o.excluded {
		s.st.Excluded[k] += n
	}
	if o.NonTrivial {
		s.st.NonTrivial++
		s.hashes[caseHash(c)] = struct{}{}
	}
	if s.nSamples < 1 || (o.NonTrivial && s.nNTSamp < 2) {
		var d interface{} = c
		if s.e.describe != nil {
			d = s.e.describe(c)
		}
		b, _ := json.Marshal(d)
		if len(b) <= 6000 {
			var v interface{}
			json.Unmarshal(b, &v)
			s.st.Samples = append(s.st.Samples, map[string]interface{}{"nontrivial": o.NonTrivial, "labels": o.labels, "case": v})
			s.nSamples++
			if o.NonTrivial {
				s.nNTSamp++
			}
		}
	}
	return err
}

func (s *state) writeReplay(c interface{}, err error, origin string) string {
	cb, _ := json.Marshal(c)
	rf := replayFile{Property: s.e.id, Error: err.Error(), Origin: origin, Case: cb}
	b, _ := json.MarshalIndent(rf, "", " ")
	h := fnv.New64a()
	h.Write(cb)
	dir := filepath.Join(s.outDir, "replays")
	os.MkdirAll(dir, 0o755)
	p := filepath.Join(dir, fmt.Sprintf("%s-%016x.json", s.e.id, h.Sum64()))
	os.WriteFile(p, b, 0o644)
	return p
}

func (s *state) violation(c interface{}, err error, origin string) {
	p := s.writeReplay(c, err, origin)
	s.st.Violations++
	s.st.ViolationFile = p
	s.st.ViolationErr = err.Error()
	fmt.Printf("VIOLATION property=%s replay=%s\n", s.e.id, p)
	msg := err.Error()
	if len(msg) > 3000 {
		msg = msg[:3000] + "..."
	}
	fmt.Printf("  detail: %s\n", strings.ReplaceAll(msg, "\n", "\n    "))
}

func (s *state) flush(start time.Time) {
	s.st.WallS = time.Since(start).Seconds()
	if len(Extra) > 0 {
		s.st.Extra = Extra
	}
	os.MkdirAll(s.outDir, 0o755)
	b, _ := json.MarshalIndent(s.st, "", " ")
	os.WriteFile(filepath.Join(s.outDir, "stats.json"), b, 0o644)
	hb := make([]byte, 0, 8*len(s.hashes))
	keys := make([]uint64, 0, len(s.hashes))
	for h := range s.hashes {
		keys = append(keys, h)
	}
	sort.Slice(keys, func(i, j int) bool { return keys[i] < keys[j] })
	for _, h := range keys {
		hb = binary.LittleEndian.AppendUint64(hb, h)
	}
	os.WriteFile(filepath.Join(s.outDir, "hashes.bin"), hb, 0o644)
}

func loadCaseFile(e *entry, path string) (interface{}, error) {
	b, err := os.ReadFile(path)
	if err != nil {
		return nil, err
	}
	var rf replayFile
	if err := json.Unmarshal(b, &rf); err != nil {
		return nil, err
	}
	if rf.Property != "" && rf.Property != e.id {
		return nil, fmt.Errorf("%s is a case of %s, not %s", path, rf.Property, e.id)
	}
	return e.decode(rf.Case)
}

func envInt(name string, def int) int {
	if v := os.Getenv(name); v != "" {
		n, err := strconv.Atoi(v)
		if err == nil {
			return n
		}
	}
	return def
}

// Main runs the property named by VERIF_PROP. It is the body of the single
// test function of each check package.
func Main(t *testing.T) {
	id := os.Getenv("VERIF_PROP")
	if id == "" {
		t.Skip("VERIF_PROP not set (run through /verif/check)")
	}
	e := registry[id]
	if e == nil {
		t.Skipf("property %s is not served by this binary", id)
	}
	tier := os.Getenv("VERIF_TIER")
	if tier == "" {
		tier = "quick"
	}
	verifDir := os.Getenv("VERIF_DIR")
	if verifDir == "" {
		verifDir = "/verif"
	}
	s := &state{e: e, hashes: map[uint64]struct{}{}, tier: tier, open: map[string]bool{}}
	s.outDir = os.Getenv("VERIF_OUT")
	if s.outDir == "" {
		s.outDir = filepath.Join(verifDir, ".build", "out", id)
	}
	seed, _ := strconv.ParseUint(os.Getenv("VERIF_RAPID_SEED"), 10, 64)
	s.st = statsFile{Property: id, Level: e.level, Rule: e.rule, Assumptions: e.assumptions, Tier: tier, Seed: seed,
		Classes: map[string]int{}, Excluded: map[string]int{}, Samples: []interface{}{}, KnownFindings: []string{}, StaleFindings: []string{}}
	start := time.Now()
	defer s.flush(start)

	// known findings
	var findings []Finding
	if fb, err := os.ReadFile(filepath.Join(verifDir, "KNOWN_FINDINGS.json")); err == nil {
		var ff findingsFile
		if err := json.Unmarshal(fb, &ff); err != nil {
			t.Fatalf("KNOWN_FINDINGS.json: %v", err)
		}
		for _, f := range ff.Findings {
			if f.Property == id {
				findings = append(findings, f)
				// VERIF_LIFT=<key> lifts one exclusion (used by hand to hunt for a fresh witness of an open finding)
				if f.Status == "open" && os.Getenv("VERIF_LIFT") != f.Key {
					s.open[f.Key] = true
				}
			}
		}
	}

	// replay mode: one file, exclusions as in a normal run
	if rp := os.Getenv("VERIF_REPLAY"); rp != "" {
		c, err := loadCaseFile(e, rp)
		if err != nil {
			t.Fatalf("cannot load replay %s: %v", rp, err)
		}
		s.st.Replayed++
		if err := s.eval(c, true); err != nil {
			s.st.Violations++
			s.st.ViolationFile = rp
			s.st.ViolationErr = err.Error()
			fmt.Printf("VIOLATION property=%s replay=%s\n  detail: %s\n", id, rp, err)
			t.FailNow()
		}
		fmt.Printf("replay of %s: property held\n", rp)
		return
	}

	shard := envInt("VERIF_SHARD", 0)
	nshards := envInt("VERIF_NSHARDS", 1)

	if shard == 0 {
		// witnesses of open findings: must still fail (reported, exit 0)
		for _, f := range findings {
			if f.Status != "open" {
				continue
			}
			if f.Witness == "" {
				fmt.Printf("KNOWN-FINDING: property=%s %s [%s] (no witness case)\n", id, f.What, f.Key)
				s.st.KnownFindings = append(s.st.KnownFindings, f.Key)
				continue
			}
			c, err := loadCaseFile(e, filepath.Join(verifDir, f.Witness))
			if err != nil {
				t.Fatalf("witness %s: %v", f.Witness, err)
			}
			open := map[string]bool{}
			for k := range s.open {
				if k != f.Key {
					open[k] = true
				}
			}
			o := &Obs{open: open, Tier: tier}
			if werr := safeRun(e, c, o); werr != nil {
				fmt.Printf("KNOWN-FINDING: property=%s %s [%s] witness=%s\n", id, f.What, f.Key, f.Witness)
				s.st.KnownFindings = append(s.st.KnownFindings, f.Key)
			} else {
				fmt.Printf("NOTE: known finding %s [%s] no longer reproduces with its witness %s\n", id, f.Key, f.Witness)
				s.st.StaleFindings = append(s.st.StaleFindings, f.Key)
			}
		}
		// regression cases: shrunk failures of earlier rounds, witnesses of fixed findings
		files, _ := filepath.Glob(filepath.Join(verifDir, "regress", id, "*.json"))
		sort.Strings(files)
		for _, f := range files {
			c, err := loadCaseFile(e, f)
			if err != nil {
				t.Fatalf("regress case %s: %v", f, err)
			}
			s.st.Replayed++
			if err := s.eval(c, true); err != nil {
				s.st.Violations++
				s.st.ViolationFile = f
				s.st.ViolationErr = err.Error()
				fmt.Printf("VIOLATION property=%s replay=%s\n  detail: %s\n", id, f, err)
				t.FailNow()
			}
		}
	}

	// deterministic enumeration
	if e.enumerate != nil {
		var bad interface{}
		var badErr error
		exh, note := e.enumerate(tier, shard, nshards, func(c interface{}) bool {
			s.st.Enumerated++
			if err := s.eval(c, true); err != nil {
				bad, badErr = c, err
				return false
			}
			return true
		})
		s.st.Exhaustive = exh && bad == nil
		s.st.EnumNote = note
		if bad != nil {
			s.violation(bad, badErr, "enumeration")
			t.FailNow()
		}
	}

	if !e.hasGen || envInt("VERIF_CASES", -1) == 0 {
		return
	}

	// generated search
	shrinking := false
	var first interface{}
	var firstErr error
	prop := func(rt *rapid.T) {
		c := e.gen(rt, tier)
		if !shrinking {
			s.st.Generated++
		}
		err := s.eval(c, !shrinking)
		if err != nil {
			if !shrinking {
				shrinking = true
				first, firstErr = c, err
			}
			s.failCase, s.failErr = c, err
			rt.Fatalf("%s violated: %v", id, firstLine(err))
		}
	}
	func() {
		defer func() {
			// rapid ends a failed check with FailNow (Goexit); recover nothing, just observe
		}()
		rapid.Check(quietTB{t}, prop)
	}()
	if s.failCase != nil || first != nil {
		c, err := s.failCase, s.failErr
		origin := "rapid (shrunk)"
		if c == nil {
			c, err, origin = first, firstErr, "rapid (first failure; shrinking did not reproduce)"
		}
		s.violation(c, err, origin)
		t.FailNow()
	}
	if *failedFlag(t) {
		// rapid complained without a failing case (e.g. too many invalid cases): infrastructure, not a verdict
		t.Fatalf("rapid reported a problem without a failing case (generated %d)", s.st.Generated)
	}
}

func firstLine(err error) string {
	s := err.Error()
	if i := strings.IndexByte(s, '\n'); i >= 0 {
		s = s[:i]
	}
	if len(s) > 300 {
		s = s[:300]
	}
	return s
}

// quietTB keeps rapid from ending the test goroutine, so that Main can write
// the replay file after shrinking.
type quietTB struct{ t *testing.T }

func (q quietTB) Helper()                                  {}
func (q quietTB) Name() string                              { return q.t.Name() }
func (q quietTB) Logf(format string, args ...any)           {}
func (q quietTB) Log(args ...any)                           {}
func (q quietTB) Skipf(format string, args ...any)          { q.t.Skipf(format, args...) }
func (q quietTB) Skip(args ...any)                          { q.t.Skip(args...) }
func (q quietTB) SkipNow()                                  { q.t.SkipNow() }
func (q quietTB) Errorf(format string, args ...any)         { q.failed() }
func (q quietTB) Error(args ...any)                         { q.failed() }
func (q quietTB) Fatalf(format string, args ...any)         { q.failed() }
func (q quietTB) Fatal(args ...any)                         { q.failed() }
func (q quietTB) FailNow()                                  {}
func (q quietTB) Fail()                                     { q.failed() }
func (q quietTB) Failed() bool                              { return *failedFlag(q.t) }
func (q quietTB) failed()                                   { *failedFlag(q.t) = true }

var failedFlags = map[*testing.T]*bool{}

func failedFlag(t *testing.T) *bool {
	if p, ok := failedFlags[t]; ok {
		return p
	}
	p := new(bool)
	failedFlags[t] = p
	return p
}
