package ref

import (
	"bytes"
	"encoding/json"
	"errors"
	"fmt"
)

// Node is a node at the level of its published encoding: marshaled key and
// value bytes and child names ("" = no child).  Links always has len(Keys)+1
// elements.
type Node struct {
	Keys   [][]byte
	Values [][]byte
	Links  []string
}

const (
	FormatBinary = "v1.1.5binary"
	FormatV1     = "v1marshaler"
)

func (n *Node) HasChild() bool {
	for _, l := range n.Links {
		if l != "" {
			return true
		}
	}
	return false
}

func putUvarint(buf []byte, v uint64) []byte {
	for v >= 0x80 {
		buf = append(buf, byte(v)|0x80)
		v >>= 7
	}
	return append(buf, byte(v))
}

func getUvarint(b []byte) (uint64, int, error) {
	var v uint64
	var shift uint
	for i := 0; i < len(b); i++ {
		c := b[i]
		if i == 9 && c > 1 {
			return 0, 0, errors.New("uvarint overflow")
		}
		if c < 0x80 {
			return v | uint64(c)<<shift, i + 1, nil
		}
		v |= uint64(c&0x7f) << shift
		shift += 7
		if i >= 9 {
			return 0, 0, errors.New("uvarint overflow")
		}
	}
	return 0, 0, errors.New("uvarint truncated")
}

// EncodeBinary is the v1.1.5binary layout: three length-prefixed lists
// (keys, values, links); the link list is empty when the node has no child.
func EncodeBinary(n *Node) []byte {
	var buf []byte
	list := func(items [][]byte) {
		buf = putUvarint(buf, uint64(len(items)))
		for _, it := range items {
			buf = putUvarint(buf, uint64(len(it)))
			buf = append(buf, it...)
		}
	}
	list(n.Keys)
	list(n.Values)
	if !n.HasChild() {
		buf = putUvarint(buf, 0)
	} else {
		buf = putUvarint(buf, uint64(len(n.Links)))
		for _, l := range n.Links {
			buf = putUvarint(buf, uint64(len(l)))
			buf = append(buf, l...)
		}
	}
	return buf
}

// RawBinary is the literal structure of a binary node, before normalisation.
type RawBinary struct {
	Keys, Values, Links [][]byte
	Trailing            int
}

// ParseBinary decodes the three lists strictly (errors on truncated input or
// absurd counts) and reports how many bytes trail the link list.
func ParseBinary(b []byte) (*RawBinary, error) {
	list := func() ([][]byte, error) {
		cnt, n, err := getUvarint(b)
		if err != nil {
			return nil, err
		}
		b = b[n:]
		if cnt > uint64(len(b)) {
			return nil, fmt.Errorf("count %d exceeds remaining %d bytes", cnt, len(b))
		}
		out := make([][]byte, 0, cnt)
		for i := uint64(0); i < cnt; i++ {
			l, n, err := getUvarint(b)
			if err != nil {
				return nil, err
			}
			b = b[n:]
			if l > uint64(len(b)) {
				return nil, fmt.Errorf("element length %d exceeds remaining %d bytes", l, len(b))
			}
			out = append(out, b[:l:l])
			b = b[l:]
		}
		return out, nil
	}
	var r RawBinary
	var err error
	if r.Keys, err = list(); err != nil {
		return nil, fmt.Errorf("keys: %w", err)
	}
	if r.Values, err = list(); err != nil {
		return nil, fmt.Errorf("values: %w", err)
	}
	if r.Links, err = list(); err != nil {
		return nil, fmt.Errorf("links: %w", err)
	}
	r.Trailing = len(b)
	return &r, nil
}

// DecodeBinary decodes a well-formed node (counts consistent) into a Node.
func DecodeBinary(b []byte) (*Node, error) {
	r, err := ParseBinary(b)
	if err != nil {
		return nil, err
	}
	if r.Trailing != 0 {
		return nil, fmt.Errorf("%d trailing bytes", r.Trailing)
	}
	if len(r.Keys) != len(r.Values) {
		return nil, fmt.Errorf("%d keys but %d values", len(r.Keys), len(r.Values))
	}
	n := &Node{Keys: r.Keys, Values: r.Values}
	switch len(r.Links) {
	case 0:
		n.Links = make([]string, len(r.Keys)+1)
	case len(r.Keys) + 1:
		n.Links = make([]string, len(r.Links))
		for i, l := range r.Links {
			n.Links[i] = string(l)
		}
	default:
		return nil, fmt.Errorf("%d keys but %d links", len(r.Keys), len(r.Links))
	}
	return n, nil
}

// EncodeV1 is the v1marshaler node under the default JSON marshaler:
// {"Key":[...],"Value":[...],"Link":[...]} with Link omitted when the node has
// no child and null for an absent child.
func EncodeV1(n *Node) []byte {
	var buf bytes.Buffer
	list := func(items [][]byte) {
		buf.WriteByte('[')
		for i, it := range items {
			if i > 0 {
				buf.WriteByte(',')
			}
			buf.Write(it)
		}
		buf.WriteByte(']')
	}
	buf.WriteString(`{"Key":`)
	list(n.Keys)
	buf.WriteString(`,"Value":`)
	list(n.Values)
	if n.HasChild() {
		buf.WriteString(`,"Link":[`)
		for i, l := range n.Links {
			if i > 0 {
				buf.WriteByte(',')
			}
			if l == "" {
				buf.WriteString("null")
			} else {
				q, _ := json.Marshal(l)
				buf.Write(q)
			}
		}
		buf.WriteByte(']')
	}
	buf.WriteByte('}')
	return buf.Bytes()
}

// DecodeV1 decodes a v1marshaler JSON node.
func DecodeV1(b []byte) (*Node, error) {
	var raw struct {
		Key   []json.RawMessage
		Value []json.RawMessage
		Link  []*string
	}
	dec := json.NewDecoder(bytes.NewReader(b))
	if err := dec.Decode(&raw); err != nil {
		return nil, err
	}
	if dec.More() {
		return nil, errors.New("trailing data")
	}
	if len(raw.Key) != len(raw.Value) {
		return nil, fmt.Errorf("%d keys but %d values", len(raw.Key), len(raw.Value))
	}
	n := &Node{}
	for i := range raw.Key {
		n.Keys = append(n.Keys, []byte(raw.Key[i]))
		n.Values = append(n.Values, []byte(raw.Value[i]))
	}
	switch len(raw.Link) {
	case 0:
		n.Links = make([]string, len(raw.Key)+1)
	case len(raw.Key) + 1:
		n.Links = make([]string, len(raw.Link))
		for i, l := range raw.Link {
			if l != nil {
				n.Links[i] = *l
			}
		}
	default:
		return nil, fmt.Errorf("%d keys but %d links", len(raw.Key), len(raw.Link))
	}
	return n, nil
}

func Encode(format string, n *Node) []byte {
	if format == FormatBinary {
		return EncodeBinary(n)
	}
	return EncodeV1(n)
}

func Decode(format string, b []byte) (*Node, error) {
	if format == FormatBinary {
		return DecodeBinary(b)
	}
	return DecodeV1(b)
}
