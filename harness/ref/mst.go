package ref

import (
	"fmt"
)

// Entry is one map entry as the format sees it.
type Entry struct {
	Key   []byte // marshaled key
	Value []byte // marshaled value
	Layer uint8  // published layer of the key at the tree's branch factor
}

// Root mirrors the fields of a persisted root that identify a version.
type Root struct {
	Link   string // "" = no top node
	Height uint8
	Size   uint64
}

// HeightRule: min(highest key layer, floor(log_bf(size-1))), 0 below two entries.
func HeightRule(size uint64, maxLayer uint8, bf uint) uint8 {
	if size < 2 {
		return 0
	}
	var h uint8
	// largest h with bf^h <= size-1
	p := uint64(1)
	for {
		if p > (size-1)/uint64(bf) {
			break
		}
		p *= uint64(bf)
		h++
		if h == 255 {
			break
		}
	}
	if maxLayer < h {
		return maxLayer
	}
	return h
}

// Build constructs the unique Merkle search tree for entries that are already
// sorted ascending by key, and returns its root and all its nodes by name.
func Build(entries []Entry, bf uint, format string) (Root, map[string][]byte) {
	nodes := map[string][]byte{}
	if len(entries) == 0 {
		return Root{}, nodes
	}
	var maxLayer uint8
	for _, e := range entries {
		if e.Layer > maxLayer {
			maxLayer = e.Layer
		}
	}
	h := HeightRule(uint64(len(entries)), maxLayer, bf)
	eff := func(e Entry) uint8 {
		if e.Layer > h {
			return h
		}
		return e.Layer
	}
	var build func(level int, es []Entry) string
	build = func(level int, es []Entry) string {
		if len(es) == 0 {
			return ""
		}
		if level < 0 {
			panic("ref.Build: entries left below level 0")
		}
		n := &Node{}
		start := 0
		for i, e := range es {
			if int(eff(e)) == level {
				n.Links = append(n.Links, build(level-1, es[start:i]))
				n.Keys = append(n.Keys, e.Key)
				n.Values = append(n.Values, e.Value)
				start = i + 1
			} else if int(eff(e)) > level {
				panic("ref.Build: entry above its node")
			}
		}
		n.Links = append(n.Links, build(level-1, es[start:]))
		if n.Keys == nil {
			n.Keys = [][]byte{}
			n.Values = [][]byte{}
		}
		b := Encode(format, n)
		name := NodeName(b)
		nodes[name] = b
		return name
	}
	link := build(int(h), entries)
	return Root{Link: link, Height: h, Size: uint64(len(entries))}, nodes
}

// KeyFuncs lets the validator interpret marshaled keys.
type KeyFuncs struct {
	Decode  func([]byte) (interface{}, error)
	Marshal Marshal
	// Compare, when set, is the configured key order (otherwise the published default order)
	Compare func(a, b interface{}) (int, error)
}

// Reachable walks a persisted version and returns name -> decoded node for
// every node reachable from the root link. Missing or undecodable nodes are errors.
func Reachable(link string, decode func([]byte) (*Node, error), load func(string) ([]byte, bool)) (map[string]*Node, error) {
	out := map[string]*Node{}
	if link == "" {
		return out, nil
	}
	stack := []string{link}
	for len(stack) > 0 {
		name := stack[len(stack)-1]
		stack = stack[:len(stack)-1]
		if _, ok := out[name]; ok {
			continue
		}
		b, ok := load(name)
		if !ok {
			return nil, fmt.Errorf("node %s is not in the store", name)
		}
		n, err := decode(b)
		if err != nil {
			return nil, fmt.Errorf("node %s does not decode: %w", name, err)
		}
		out[name] = n
		for _, l := range n.Links {
			if l != "" {
				stack = append(stack, l)
			}
		}
	}
	return out, nil
}

// ShapeReport is returned by ValidateShape.
type ShapeReport struct {
	Nodes       int
	Entries     uint64
	PassThrough int
	MaxDepth    int
	Keys        []interface{} // all keys in order
	// KeyRange per node name: indexes into Keys [lo,hi) of the open interval the node covers
}

// ValidateShape checks clause by clause the published shape of a persisted
// version: levels, childless leaves, strictly ascending keys within the range
// inherited from ancestors, key layer == level (>= level in the top node),
// n keys <-> n+1 link slots (implied by decoding), entry-less nodes only as
// single-child pass-through nodes, and Size == reachable entries.
func ValidateShape(root Root, bf uint, decode func([]byte) (*Node, error), load func(string) ([]byte, bool), kf KeyFuncs) (*ShapeReport, error) {
	rep := &ShapeReport{}
	if root.Link == "" {
		if root.Size != 0 {
			return nil, fmt.Errorf("root without top node records size %d", root.Size)
		}
		return rep, nil
	}
	var last interface{}
	haveLast := false
	var walk func(name string, level int, top bool) error
	walk = func(name string, level int, top bool) error {
		if level < 0 {
			return fmt.Errorf("node %s lies below level 0", name)
		}
		depth := int(root.Height) - level
		if depth > rep.MaxDepth {
			rep.MaxDepth = depth
		}
		b, ok := load(name)
		if !ok {
			return fmt.Errorf("node %s missing from store", name)
		}
		n, err := decode(b)
		if err != nil {
			return fmt.Errorf("node %s: %w", name, err)
		}
		rep.Nodes++
		if len(n.Keys) == 0 {
			if n.Links[0] == "" {
				return fmt.Errorf("entry-less node %s without a child is stored", name)
			}
			rep.PassThrough++
		}
		if level == 0 && n.HasChild() {
			return fmt.Errorf("level-0 node %s has children", name)
		}
		for i := range n.Links {
			if n.Links[i] != "" {
				if err := walk(n.Links[i], level-1, false); err != nil {
					return err
				}
			}
			if i < len(n.Keys) {
				k, err := kf.Decode(n.Keys[i])
				if err != nil {
					return fmt.Errorf("node %s key %d: %w", name, i, err)
				}
				if haveLast {
					var c int
					var err error
					if kf.Compare != nil {
						c, err = kf.Compare(last, k)
					} else {
						c, err = Compare(last, k, kf.Marshal)
					}
					if err != nil {
						return err
					}
					if c >= 0 {
						return fmt.Errorf("key %v at node %s (level %d) is not above its in-order predecessor %v", k, name, level, last)
					}
				}
				last, haveLast = k, true
				l, err := Layer(k, bf, kf.Marshal)
				if err != nil {
					return err
				}
				if top {
					if int(l) < level {
						return fmt.Errorf("key %v of layer %d is in the top node at level %d", k, l, level)
					}
				} else if int(l) != level {
					return fmt.Errorf("key %v of layer %d is in a node at level %d", k, l, level)
				}
				rep.Entries++
				rep.Keys = append(rep.Keys, k)
			}
		}
		return nil
	}
	if err := walk(root.Link, int(root.Height), true); err != nil {
		return nil, err
	}
	if rep.Entries != root.Size {
		return nil, fmt.Errorf("root records size %d but %d entries are reachable", root.Size, rep.Entries)
	}
	return rep, nil
}
