package ref

import (
	"bytes"
	"fmt"
	"reflect"
)

// CRC64ECMA is CRC-64/XZ (reflected ECMA-182 polynomial, all-ones init and
// xor-out), computed bit by bit without a table.
func CRC64ECMA(b []byte) uint64 {
	const poly = 0xC96C5795D7870F42
	crc := ^uint64(0)
	for _, c := range b {
		crc ^= uint64(c)
		for i := 0; i < 8; i++ {
			if crc&1 == 1 {
				crc = crc>>1 ^ poly
			} else {
				crc >>= 1
			}
		}
	}
	return ^crc
}

// UintLayer: the number of times bf divides v; zero has layer 0.
func UintLayer(v uint64, bf uint) uint8 {
	if v == 0 || bf < 2 {
		return 0
	}
	var l uint8
	for v%uint64(bf) == 0 {
		v /= uint64(bf)
		l++
	}
	return l
}

// IntLayer: as UintLayer on the magnitude (divisibility ignores sign).
func IntLayer(v int64, bf uint) uint8 {
	if v == 0 || bf < 2 {
		return 0
	}
	var l uint8
	b := int64(bf)
	for v-(v/b)*b == 0 {
		v /= b
		l++
	}
	return l
}

// BlobLayer: layer of the CRC of the bytes.
func BlobLayer(b []byte, bf uint) uint8 { return UintLayer(CRC64ECMA(b), bf) }

// UserKey is implemented by the harness' user-defined key type; the reference
// reads the layer and rank directly instead of going through mast.Key.
type UserKey interface {
	RefLayer() uint8
	RefRank() int64
}

type Marshal func(interface{}) ([]byte, error)

// Layer is the published layer of a key at a branch factor.
func Layer(key interface{}, bf uint, marshal Marshal) (uint8, error) {
	switch v := key.(type) {
	case UserKey:
		return v.RefLayer(), nil
	case []byte:
		return BlobLayer(v, bf), nil
	case string:
		return BlobLayer([]byte(v), bf), nil
	case int:
		return IntLayer(int64(v), bf), nil
	case int8:
		return IntLayer(int64(v), bf), nil
	case int16:
		return IntLayer(int64(v), bf), nil
	case int32:
		return IntLayer(int64(v), bf), nil
	case int64:
		return IntLayer(v, bf), nil
	case uint:
		return UintLayer(uint64(v), bf), nil
	case uint8:
		return UintLayer(uint64(v), bf), nil
	case uint16:
		return UintLayer(uint64(v), bf), nil
	case uint32:
		return UintLayer(uint64(v), bf), nil
	case uint64:
		return UintLayer(v, bf), nil
	}
	b, err := marshal(key)
	if err != nil {
		return 0, err
	}
	return BlobLayer(b, bf), nil
}

func cmpI(a, b int64) int {
	if a < b {
		return -1
	} else if a > b {
		return 1
	}
	return 0
}
func cmpU(a, b uint64) int {
	if a < b {
		return -1
	} else if a > b {
		return 1
	}
	return 0
}

// Compare is the published default key order. Keys of different dynamic types
// do not compare (error).
func Compare(a, b interface{}, marshal Marshal) (int, error) {
	if ua, ok := a.(UserKey); ok {
		if ub, ok := b.(UserKey); ok {
			return cmpI(ua.RefRank(), ub.RefRank()), nil
		}
		return 0, fmt.Errorf("ref: cannot compare %T with %T", a, b)
	}
	if reflect.TypeOf(a) != reflect.TypeOf(b) {
		return 0, fmt.Errorf("ref: cannot compare %T with %T", a, b)
	}
	switch x := a.(type) {
	case string:
		y := b.(string)
		// byte-wise order
		return bytes.Compare([]byte(x), []byte(y)), nil
	case int:
		return cmpI(int64(x), int64(b.(int))), nil
	case int64:
		return cmpI(x, b.(int64)), nil
	case uint:
		return cmpU(uint64(x), uint64(b.(uint))), nil
	case uint64:
		return cmpU(x, b.(uint64)), nil
	case []byte:
		return bytes.Compare(x, b.([]byte)), nil
	}
	ba, err := marshal(a)
	if err != nil {
		return 0, err
	}
	bb, err := marshal(b)
	if err != nil {
		return 0, err
	}
	return bytes.Compare(ba, bb), nil
}
