package checks

import (
	"fmt"

	"pgregory.net/rapid"
	"verif/harness/core"
	"verif/harness/ref"
	"verif/harness/run"
)

// C13 — persisting is incremental, writes no garbage, and clean means unchanged.

var c13Weights = core.OpWeights{
	core.OpInsert: 14, core.OpInsertNew: 14, core.OpUpdate: 8, core.OpInsertSame: 6, core.OpDelete: 14, core.OpDeleteTop: 4, core.OpGet: 4, core.OpIter: 2,
	core.OpDelAbsent: 2, core.OpDelWrong: 2, core.OpClone: 3, core.OpPersist: 24, core.OpReload: 8, core.OpReloadJSON: 2, core.OpDrain: 1,
}

func genC13(t *rapid.T, tier string) HistCase {
	c := genC13base(t, tier)
	// sprinkle failing persists
	n := rapid.IntRange(0, 3).Draw(t, "nfailingpersists")
	for i := 0; i < n; i++ {
		pos := rapid.IntRange(0, len(c.Prog)).Draw(t, "failpos")
		op := core.Op{Kind: core.OpPersistFail, Slot: rapid.IntRange(0, 1).Draw(t, "failslot"), N: rapid.IntRange(1, 4).Draw(t, "failnth")}
		c.Prog = append(c.Prog[:pos], append([]core.Op{op}, c.Prog[pos:]...)...)
	}
	return c
}

func genC13base(t *rapid.T, tier string) HistCase {
	return genHist(t, tier, core.GenOpts{
		Caches:   []string{"none", "none", "big", "arc", "tiny2"},
		Vals:     []string{core.VInt, core.VString, core.VBytes, core.VLong, core.VPtr, core.VIface, core.VStruct, core.VNil, core.VTags},
		BigOneIn: 10,
	}, c13Weights, 70, 140, 44, 2)
}

type keyRange struct {
	lo, hi interface{} // nil = unbounded
}

// nodeRanges walks a persisted version and returns, per node name, the closed
// key interval inherited from its ancestors.
func nodeRanges(w *core.World, link string) (map[string]keyRange, error) {
	out := map[string]keyRange{}
	if link == "" {
		return out, nil
	}
	var walk func(name string, r keyRange) error
	walk = func(name string, r keyRange) error {
		b, ok := w.Store.Peek(name)
		if !ok {
			return fmt.Errorf("node %s missing", name)
		}
		n, err := w.Cfg.DecodeNode(b)
		if err != nil {
			return err
		}
		out[name] = r
		keys := make([]interface{}, len(n.Keys))
		for i := range n.Keys {
			if keys[i], err = w.Cfg.UnmarshalKey(n.Keys[i]); err != nil {
				return err
			}
		}
		for i, l := range n.Links {
			if l == "" {
				continue
			}
			cr := r
			if i > 0 {
				cr.lo = keys[i-1]
			}
			if i < len(keys) {
				cr.hi = keys[i]
			}
			if err := walk(l, cr); err != nil {
				return err
			}
		}
		return nil
	}
	return out, walk(link, keyRange{})
}

func runC13(c HistCase, o *run.Obs) error {
	type pending struct {
		mark      int
		touched   []int
		baseRoot  ref.Root
		hadBase   bool
		hChanged  bool
		hAtBase   uint8
		v0ranges  map[string]keyRange
		dirtyFlag bool
	}
	var pend pending
	nontrivial := 0
	cleanButUnmodifiedDirty := 0
	var ww *core.World
	m, err := runHist(c, o, 2, func(w *core.World, m *core.Machine) {
		ww = w
		m.BeforePersist = func(si int, t *core.Tree) {
			pend = pending{mark: w.Store.Mark(), hChanged: t.HeightChanged, hAtBase: t.HeightAtBase}
			for k := range t.Touched {
				pend.touched = append(pend.touched, k)
			}
			if t.BaseRoot != nil {
				pend.baseRoot = core.RootOf(*t.BaseRoot)
				pend.hadBase = true
			}
			pend.v0ranges, _ = nodeRanges(w, pend.baseRoot.Link)
			core.Safely("IsDirty", func() error { pend.dirtyFlag = t.M.IsDirty(); return nil })
		}
		m.OnPersist = func(si int, t *core.Tree, sr *core.SavedRoot) error {
			writes := w.Store.StoresSince(pend.mark)
			v1, err := w.Reachable(sr.Root)
			if err != nil {
				// completeness of a returned root is C03's subject
				o.Label("aborted:root-not-loadable(C03)")
				return nil
			}
			for _, wr := range writes {
				if _, ok := v1[wr.Name]; !ok {
					return fmt.Errorf("MakeRoot wrote node %s which is not reachable from the root it returned (%d writes, %d reachable nodes)", wr.Name, len(writes), len(v1))
				}
			}
			got := core.RootOf(sr.Root)
			if len(pend.touched) == 0 {
				if len(writes) != 0 {
					return fmt.Errorf("nothing was modified since the last persisted/loaded version, yet MakeRoot wrote %d node(s)", len(writes))
				}
				if got != pend.baseRoot {
					return fmt.Errorf("nothing was modified since the last persisted/loaded version %+v, yet MakeRoot returned %+v", pend.baseRoot, got)
				}
				return nil
			}
			if !pend.hChanged && sr.Root.Height == pend.hAtBase {
				h := int(sr.Root.Height)
				if len(writes) > (2*h+2)*len(pend.touched) {
					return fmt.Errorf("%d key(s) modified at unchanged height %d but MakeRoot wrote %d nodes (bound %d)", len(pend.touched), h, len(writes), (2*h+2)*len(pend.touched))
				}
				for _, wr := range writes {
					r, inV0 := pend.v0ranges[wr.Name]
					if !inV0 {
						continue
					}
					hit := false
					for _, ki := range pend.touched {
						k := w.Pool[ki]
						if (r.lo == nil || w.Cfg.RefCompare(r.lo, k) <= 0) && (r.hi == nil || w.Cfg.RefCompare(k, r.hi) <= 0) {
							hit = true
							break
						}
					}
					if !hit {
						return fmt.Errorf("MakeRoot rewrote node %s of the previous version (key range [%v,%v]) although none of the %d modified keys lies in that range", wr.Name, r.lo, r.hi, len(pend.touched))
					}
				}
				if h >= 2 && len(pend.touched) <= 3 && len(pend.v0ranges) >= 10 {
					nontrivial++
				}
			}
			return nil
		}
	}, func(step int, op core.Op, m *core.Machine) error {
		for si, t := range m.Slots {
			if t == nil {
				continue
			}
			var dirty bool
			if err := core.Safely("IsDirty", func() error { dirty = t.M.IsDirty(); return nil }); err != nil {
				return err
			}
			base := t.Base
			if base == nil {
				base = core.Model{}
			}
			if !dirty && !t.Model.Equal(base) {
				return fmt.Errorf("slot %d reports IsDirty()==false but its contents %s differ from the version it was loaded from / last persisted as %s", si, ww.DescribeModel(t.Model), ww.DescribeModel(base))
			}
			if dirty && len(t.Touched) == 0 {
				cleanButUnmodifiedDirty++
			}
		}
		return nil
	})
	if err != nil || m == nil {
		return err
	}
	o.NonTrivial = nontrivial >= 1
	labelCfg(o, c.Cfg)
	o.Labelf("maxheight=%d", m.Ev.MaxHeight)
	o.Labelf("persists=%d", min(m.Ev.Persists, 10))
	if m.Ev.FailedPersists > 0 {
		o.Label("failed-persist-exercised")
	}
	if cleanButUnmodifiedDirty > 0 {
		o.Label("unmodified-tree-reported-dirty(not-asserted)")
	}
	return nil
}

func init() {
	run.Register(run.Prop[HistCase]{
		ID:    "C13",
		Level: "exploration",
		Rule: "case = configuration (cache none/unbounded/ARC/evicting) + fill + program of <=70/140 ops with a persist about every 4th op, so each persist sees a batch of 0-8 modifications (fresh inserts, updates, same-value inserts, deletes, delete+reinsert, drains to empty) on a loaded, cloned or just-persisted version; the Store calls of each MakeRoot are taken from the recording store and checked: W subset of reachable(returned root); no modification => no write and the same root; at unchanged height every rewritten node of the previous version has a modified key within its (closed) key range and |W| <= (2h+2) x #modified keys; after every op IsDirty()==false implies contents == base version. " +
			"Non-trivial = a persist at unchanged height >= 2 with 1-3 modified keys on a previous version of >= 10 nodes; distinct by case hash",
		Assumptions: []string{"key ranges are taken closed (separator keys included): delete+reinsert legitimately re-creates the separator's neighbours", "how often an unmodified tree reports dirty is recorded, not asserted (only one direction is stated)"},
		Gen:         genC13,
		Run:         runC13,
	})
}
