package checks

import (
	"encoding/json"
	"errors"
	"fmt"
	"os"
	"strings"
	"sync/atomic"

	"github.com/jrhy/mast"
	"pgregory.net/rapid"
	"verif/harness/core"
	"verif/harness/ref"
	"verif/harness/run"
)

// C12 — an operation that returns an error leaves the tree unchanged.

type C12Case struct {
	Cfg       core.Config `json:"cfg"`
	Base      []core.Op   `json:"base"`
	Residency string      `json:"residency"` // memory | reloaded | reloaded+dirty
	Dirty     []core.Op   `json:"dirty,omitempty"`
	Op        string      `json:"op"` // insert | update | delete | get | iter | seekiter | diffiter | difflinks | clone | min | max | ceil | forward | backward
	K         int         `json:"k"`
	Other     []core.Op   `json:"other,omitempty"` // ops deriving the other side of a diff from the tree
	Pairs     [][2]int    `json:"pairs,omitempty"` // pairs of fault positions (selectors)
}

var c12Ops = []string{"insert", "insert", "update", "delete", "delete", "deletetop", "deletetop", "get", "iter", "seekiter", "diffiter", "difflinks", "clone", "min", "max", "ceil", "forward", "backward"}

func genC12(t *rapid.T, tier string) C12Case {
	c := C12Case{Cfg: core.GenConfig(t, tier, core.GenOpts{
		Caches: []string{"none", "none", "none", "big", "tiny1"}, Vals: []string{core.VInt, core.VBytes},
		Keys:       []string{core.KLK, core.KLK, core.KLK, core.KInt, core.KString, core.KStruct, core.KStruct, core.KUint64, core.KBytes},
		Marshalers: []string{"json"},
		BigOneIn:   40,
		NoReversed: true, // the fault-injecting comparator of this check wraps the default order
	})}
	pool := len(c.Cfg.Pool())
	c.Base = append(core.GenFillCfg(t, c.Cfg, pool), core.GenProgram(t, pairBaseWeights, 15, 1)...)
	c.Residency = rapid.SampledFrom([]string{"memory", "reloaded", "reloaded", "reloaded+dirty", "reloaded+dirty", "reloaded+dirty"}).Draw(t, "residency")
	if c.Residency == "reloaded+dirty" {
		c.Dirty = core.GenProgram(t, core.OpWeights{core.OpInsertNew: 2, core.OpDelete: 2, core.OpUpdate: 6}, 12, 1)
	}
	c.Op = rapid.SampledFrom(c12Ops).Draw(t, "op")
	c.K = rapid.IntRange(0, 63).Draw(t, "k")
	if c.Op == "diffiter" || c.Op == "difflinks" {
		c.Other = core.GenProgram(t, pairDeltaWeights, 8, 1)
	}
	np := rapid.IntRange(0, 3).Draw(t, "npairs")
	for i := 0; i < np; i++ {
		c.Pairs = append(c.Pairs, [2]int{rapid.IntRange(0, 200).Draw(t, "p1"), rapid.IntRange(0, 200).Draw(t, "p2")})
	}
	return c
}

// faults counts and fails calls of one class.
type faultCounter struct {
	n      int64
	failAt map[int64]bool
	fired  int64
	// failAll: every call fails and nothing is counted (used to provoke a failed call before the one under test)
	failAll bool
}

func (f *faultCounter) hit() bool {
	if f.failAll {
		return true
	}
	i := atomic.AddInt64(&f.n, 1)
	if f.failAt[i] {
		atomic.AddInt64(&f.fired, 1)
		return true
	}
	return false
}

type c12Env struct {
	w                *core.World
	t, other         *core.Tree
	load, cmp, marsh *faultCounter
	armed            bool
	// cur is the cursor of a forward/backward case: positioned once without faults; the
	// faulted step and its retry are the same call on this same cursor
	cur *mast.Cursor
	// broken: a violation noticed while preparing the call (the provoked failing move)
	broken error
}

var errInjectedCmp = errors.New("injected key-compare fault")
var errInjectedMarshal = errors.New("injected marshal fault")

func c12Build(c C12Case) (*c12Env, bool) {
	e := &c12Env{load: &faultCounter{}, cmp: &faultCounter{}, marsh: &faultCounter{}}
	w := core.NewWorld(c.Cfg)
	// re-opened trees read through a cold cache of their own (if the configuration has one), so that loads really happen
	var cold mast.NodeCache
	coldCache := func() mast.NodeCache {
		if cold == nil && c.Cfg.Cache != "none" && c.Cfg.Cache != "" {
			cold, _ = core.MakeCache(c.Cfg.Cache)
		}
		return cold
	}
	e.w = w
	w.WrapMarshal = func(base func(interface{}) ([]byte, error)) func(interface{}) ([]byte, error) {
		return func(x interface{}) ([]byte, error) {
			if e.armed && e.marsh.hit() {
				return nil, errInjectedMarshal
			}
			return base(x)
		}
	}
	// the default order, built (as LoadMast would) from the configured marshaler - here the fault-injecting one, so
	// that a Marshal fault can also strike inside a comparison of keys that are ordered by their marshaled form
	def := mast.DefaultKeyCompare(w.WrapMarshal(json.Marshal))
	w.KeyCompare = func(a, b interface{}) (int, error) {
		if e.armed && e.cmp.hit() {
			return 0, errInjectedCmp
		}
		return def(a, b)
	}
	w.Store.FailLoad = func(i int, name string) bool { return e.armed && e.load.hit() }
	m, err := core.NewMachine(w, 1)
	if err != nil {
		return nil, false
	}
	runOps := func(m *core.Machine, ops []core.Op) bool {
		for _, op := range ops {
			op.Slot = 0
			if err := m.Step(op); err != nil && !errors.Is(err, core.ErrSkipped) {
				return false
			}
		}
		return true
	}
	if !runOps(m, c.Base) {
		return nil, false
	}
	e.t = m.Slots[0]
	if c.Residency != "memory" {
		sr, err := w.Persist(e.t)
		if err != nil {
			return nil, false
		}
		lt, err := w.Load(sr, nil, coldCache(), false)
		if err != nil {
			return nil, false
		}
		e.t = lt
		if c.Residency == "reloaded+dirty" {
			m2 := core.AdoptMachine(&core.Machine{W: w, Slots: []*core.Tree{lt}})
			if !runOps(m2, c.Dirty) {
				return nil, false
			}
			e.t = m2.Slots[0]
		}
	}
	if c.Op == "diffiter" || c.Op == "difflinks" {
		// the other side: derived from a reload of the same tree (persisted, so that the diff loads)
		cl, err := w.Clone(e.t)
		if err != nil {
			return nil, false
		}
		m3 := core.AdoptMachine(&core.Machine{W: w, Slots: []*core.Tree{cl}})
		if !runOps(m3, c.Other) {
			return nil, false
		}
		sr, err := w.Persist(m3.Slots[0])
		if err != nil {
			return nil, false
		}
		if e.other, err = w.Load(sr, nil, coldCache(), false); err != nil {
			return nil, false
		}
	}
	w.Store.TrimLog()
	return e, true
}

// c12Call runs the case's operation once. It returns the mast error, a
// rendering of the call's result, and the expected model afterwards.
func c12Call(c C12Case, e *c12Env, arm bool) (opErr error, result string, post core.Model, skipped bool, panicked error) {
	w, t := e.w, e.t
	post = t.Model.Clone()
	pool := len(w.Pool)
	e.armed = arm
	defer func() { e.armed = false }()
	step := func(f func(cur *mast.Cursor) error) (error, string) {
		if e.cur == nil {
			// position the cursor with faults off; only the step itself is subject to faults
			e.armed = false
			cur, err := t.M.Cursor(core.Ctx)
			if err == nil {
				err = cur.Ceil(core.Ctx, w.Pool[c.K%pool])
			}
			if err != nil {
				return err, ""
			}
			if c.K%2 == 1 {
				// the cursor has a failed move behind it: one move during which every read of the store fails
				// (rolled back, or - when it needed no read - simply made), before the move under test
				k0, v0, ok0 := cur.Get()
				e.load.failAll, e.armed = true, true
				var merr error
				perr := core.Safely("provoked failing move", func() error { merr = f(cur); return nil })
				e.load.failAll, e.armed = false, false
				if perr == nil && merr != nil {
					// that move returned an error: the cursor must still be where it was
					if k1, v1, ok1 := cur.Get(); ok1 != ok0 || fmt.Sprint(k1, v1) != fmt.Sprint(k0, v0) {
						e.broken = fmt.Errorf("a cursor move during which every read of the store failed returned %q but moved the cursor from %v=%v,%v to %v=%v,%v", merr, k0, v0, ok0, k1, v1, ok1)
					}
				}
			}
			e.cur = cur
			e.armed = arm
		}
		if err := f(e.cur); err != nil {
			return err, ""
		}
		k, v, ok := e.cur.Get()
		return nil, fmt.Sprintf("%v=%v,%v", k, v, ok)
	}
	walk := func(start func(cur *mast.Cursor) error, step func(cur *mast.Cursor) error) (error, string) {
		cur, err := t.M.Cursor(core.Ctx)
		if err != nil {
			return err, ""
		}
		if err := start(cur); err != nil {
			return err, ""
		}
		if step != nil {
			if err := step(cur); err != nil {
				return err, ""
			}
		}
		k, v, ok := cur.Get()
		return nil, fmt.Sprintf("%v=%v,%v", k, v, ok)
	}
	// fresh: the cursor is opened with faults off; the faulted call and its retry are the same call on that cursor
	fresh := func(f func(cur *mast.Cursor) error) (error, string) {
		if e.cur == nil {
			e.armed = false
			cur, err := t.M.Cursor(core.Ctx)
			if err != nil {
				return err, ""
			}
			e.cur = cur
			e.armed = arm
		}
		if err := f(e.cur); err != nil {
			return err, ""
		}
		k, v, ok := e.cur.Get()
		return nil, fmt.Sprintf("%v=%v,%v", k, v, ok)
	}
	_ = walk
	panicked = core.Safely("operation under fault", func() error {
		switch c.Op {
		case "insert":
			ki, ok := core.AbsentKey(t.Model, pool, c.K)
			if !ok {
				skipped = true
				return nil
			}
			post[ki] = 3
			opErr = t.M.Insert(core.Ctx, w.Pool[ki], w.Cfg.MakeVal(3))
		case "update":
			ki, ok := core.PresentKey(t.Model, c.K)
			if !ok {
				skipped = true
				return nil
			}
			post[ki] = t.Model[ki] + 1
			opErr = t.M.Insert(core.Ctx, w.Pool[ki], w.Cfg.MakeVal(post[ki]))
		case "delete", "deletetop":
			ki, ok := core.PresentKey(t.Model, c.K)
			if ok && c.Op == "deletetop" {
				// the present key of the highest layer: its removal merges the deepest pair of subtrees
				best := -1
				for _, k := range t.Model.Keys() {
					if l := int(w.Cfg.RefLayer(w.Pool[k])); l > best {
						best, ki = l, k
					}
				}
			}
			if !ok {
				skipped = true
				return nil
			}
			delete(post, ki)
			opErr = t.M.Delete(core.Ctx, w.Pool[ki], w.Cfg.MakeVal(t.Model[ki]))
		case "get":
			var v interface{}
			var found bool
			found, opErr = t.M.Get(core.Ctx, w.Pool[c.K%pool], &v)
			result = fmt.Sprintf("%v,%v", found, v)
		case "iter":
			n := 0
			opErr = t.M.Iter(core.Ctx, func(k, v interface{}) error { n++; return nil })
			result = fmt.Sprint(n)
		case "seekiter":
			n := 0
			opErr = t.M.SeekIter(core.Ctx, w.Pool[c.K%pool], func(k, v interface{}) error { n++; return nil })
			result = fmt.Sprint(n)
		case "diffiter":
			n := 0
			opErr = t.M.DiffIter(core.Ctx, e.other.M, func(a, r bool, k, av, rv interface{}) (bool, error) { n++; return true, nil })
			result = fmt.Sprint(n)
		case "difflinks":
			n := 0
			opErr = t.M.DiffLinks(core.Ctx, e.other.M, func(r bool, l interface{}) (bool, error) { n++; return true, nil })
			result = fmt.Sprint(n)
		case "clone":
			_, opErr = t.M.Clone(core.Ctx)
		case "min":
			opErr, result = fresh(func(cur *mast.Cursor) error { return cur.Min(core.Ctx) })
		case "max":
			opErr, result = fresh(func(cur *mast.Cursor) error { return cur.Max(core.Ctx) })
		case "ceil":
			opErr, result = fresh(func(cur *mast.Cursor) error { return cur.Ceil(core.Ctx, w.Pool[c.K%pool]) })
		case "forward":
			opErr, result = step(func(cur *mast.Cursor) error { return cur.Forward(core.Ctx) })
		case "backward":
			opErr, result = step(func(cur *mast.Cursor) error { return cur.Backward(core.Ctx) })
		}
		return nil
	})
	return
}

func runC12(c C12Case, o *run.Obs) error {
	// dry run: count the fallible calls the operation makes
	e0, ok := c12Build(c)
	if !ok {
		o.Label("aborted:base-failure")
		return nil
	}
	e0.load.failAt, e0.cmp.failAt, e0.marsh.failAt = nil, nil, nil
	opErr, normalResult, _, skipped, pan := c12Call(c, e0, true)
	if e0.broken != nil {
		return fmt.Errorf("[%s] %s tree of %d entries (height %d), %s(k=%d): %w", c.Cfg, c.Residency, len(e0.t.Model), e0.t.M.Height(), c.Op, c.K, e0.broken)
	}
	if skipped {
		o.Label("skipped:no-applicable-key")
		return nil
	}
	if opErr != nil || pan != nil {
		o.Label("aborted:base-failure")
		return nil
	}
	counts := map[string]int{"load": int(e0.load.n), "cmp": int(e0.cmp.n), "marshal": int(e0.marsh.n)}
	type plan struct {
		class string
		pos   []int64
	}
	var plans []plan
	for _, cl := range []string{"load", "cmp", "marshal"} {
		n := counts[cl]
		if (cl == "cmp" || cl == "marshal") && n > 40 {
			// long sequences (comparisons of a diff of large trees; marshal calls of keys that are compared through their
			// marshaled form): every position up to 40, then every 3rd up to 160, then every 17th, and always the last four
			for p := 1; p <= n; p++ {
				if p <= 40 || (p <= 160 && p%3 == 0) || p%17 == 0 || p > n-4 {
					plans = append(plans, plan{cl, []int64{int64(p)}})
				}
			}
			continue
		}
		for p := 1; p <= n; p++ {
			plans = append(plans, plan{cl, []int64{int64(p)}})
		}
	}
	for _, pr := range c.Pairs {
		for _, cl := range []string{"load", "cmp"} {
			if n := counts[cl]; n >= 2 {
				a, b := pr[0]%n+1, pr[1]%n+1
				if a != b {
					plans = append(plans, plan{cl, []int64{int64(a), int64(b)}})
				}
			}
		}
	}
	late, errored, swallowed, panics := 0, 0, 0, 0
	for _, pl := range plans {
		e, ok := c12Build(c)
		if !ok {
			o.Label("aborted:base-failure")
			return nil
		}
		fc := map[string]*faultCounter{"load": e.load, "cmp": e.cmp, "marshal": e.marsh}[pl.class]
		fc.failAt = map[int64]bool{}
		for _, p := range pl.pos {
			fc.failAt[p] = true
		}
		pre := e.t.Model.Clone()
		preHeight := e.t.M.Height()
		desc := fmt.Sprintf("[%s] %s tree %s (height %d), %s(k=%d) with fault at %s call(s) %v of %d", c.Cfg, c.Residency, e.w.DescribeModel(pre), preHeight, c.Op, c.K, pl.class, pl.pos, counts[pl.class])
		opErr, _, post, _, pan := c12Call(c, e, true)
		if pan != nil {
			// a panic is neither a returned error nor a success: outside the statement, recorded only
			panics++
			if os.Getenv("VERIF_DEBUG_PANIC") != "" {
				fmt.Println("PANIC-UNDER-FAULT", desc, firstLines(pan.Error(), 14))
			}
			continue
		}
		if opErr == nil {
			if fc.fired > 0 {
				swallowed++
			}
			continue
		}
		errored++
		mutating := c.Op == "insert" || c.Op == "update" || c.Op == "delete" || c.Op == "deletetop"
		if mutating && pl.pos[0] >= 2 && c.Residency == "reloaded+dirty" {
			late++
		}
		// Open known findings, keyed to the call site that reports the error:
		// Insert failing while deciding/performing growth, Delete failing while shrinking.
		// Each exclusion also requires the finding's own precondition, computed from the model: Insert enters its growth
		// phase only on a tree that already holds bf^(height+1) entries; Delete enters its shrink loop only when the
		// remaining size is at most bf^height or at most one key of the top layer was left.
		if msg := opErr.Error(); c.Op == "insert" && (strings.HasPrefix(msg, "canGrow:") || strings.HasPrefix(msg, "grow:")) &&
			uint64(len(pre)) >= powU(uint64(c.Cfg.BF), uint(preHeight)+1) {
			if o.Excl("insert-grow-failure-not-atomic") {
				continue
			}
		} else if (c.Op == "delete" || c.Op == "deletetop") && strings.HasPrefix(msg, "shrink:") && preHeight > 0 &&
			(uint64(len(pre))-1 <= powU(uint64(c.Cfg.BF), uint(preHeight)) || topLayerKeys(e.w, pre, preHeight) <= 1) {
			if o.Excl("delete-shrink-failure-not-atomic") {
				continue
			}
		}
		// faults cleared: the tree must be exactly as before the call
		if got := e.t.M.Size(); got != uint64(len(pre)) {
			return fmt.Errorf("%s: the call returned error %q but Size changed from %d to %d", desc, opErr, len(pre), got)
		}
		if got := e.t.M.Height(); got != preHeight {
			return fmt.Errorf("%s: the call returned error %q but Height changed from %d to %d", desc, opErr, preHeight, got)
		}
		if err := e.w.CompareContents(e.t.M, pre); err != nil {
			return fmt.Errorf("%s: the call returned error %q but the contents changed: %w", desc, opErr, err)
		}
		// the same call succeeds with the normal result when retried
		rErr, rResult, _, _, rPan := c12Call(c, e, false)
		if rPan != nil {
			return fmt.Errorf("%s: the call returned error %q; retried after the fault cleared it panicked: %w", desc, opErr, rPan)
		}
		if rErr != nil {
			return fmt.Errorf("%s: the call returned error %q; retried after the fault cleared it still fails: %v", desc, opErr, rErr)
		}
		if rResult != normalResult {
			return fmt.Errorf("%s: retried call returned %q, the normal result is %q", desc, rResult, normalResult)
		}
		if err := e.w.CompareContents(e.t.M, post); err != nil {
			return fmt.Errorf("%s: after the retried call the contents are not the normal post-state: %w", desc, err)
		}
	}
	run.AddExtra("fault_positions_executed", len(plans))
	run.AddExtra("calls_that_returned_an_error", errored)
	run.AddExtra("faults_swallowed_call_returned_nil(not_judged)", swallowed)
	run.AddExtra("panics_under_fault(not_judged)", panics)
	o.NonTrivial = late >= 1
	labelCfg(o, c.Cfg)
	o.Labelf("op=%s", c.Op)
	o.Labelf("residency=%s", c.Residency)
	if swallowed > 0 {
		o.Label("fault-swallowed(not-judged)")
	}
	if panics > 0 {
		o.Label("panic-under-fault(not-judged)")
	}
	return nil
}

// enumC12Tall: a ten-level tree (700 user keys at branch factor 2, layers = trailing zeros of the key number) opened from
// the store; operations at shallow and deep positions, every fault position of each.
func enumC12Tall(tier string, shard, nshards int, yield func(C12Case) bool) (bool, string) {
	layers := make([]uint8, 700)
	for i := range layers {
		for x := i + 1; x%2 == 0 && layers[i] < 10; x /= 2 {
			layers[i]++
		}
	}
	cfg := core.Config{BF: 2, Format: ref.FormatBinary, Key: core.KLK, Val: core.VInt, Cache: "none", Marshaler: "json", LKLayers: layers, Big: 700}
	base := []core.Op{{Kind: core.OpBulkIns, K: 0, V: 0, N: 700}}
	i := 0
	for _, op := range []string{"forward", "backward", "ceil", "max", "delete", "insert"} {
		for _, k := range []int{1, 255, 385, 697} {
			i++
			if i%nshards != shard {
				continue
			}
			res := "reloaded"
			var dirty []core.Op
			if i%3 == 0 {
				res = "reloaded+dirty"
				dirty = []core.Op{{Kind: core.OpUpdate, K: 5, V: 1}, {Kind: core.OpUpdate, K: 300, V: 2}}
			}
			if !yield(C12Case{Cfg: cfg, Base: base, Residency: res, Dirty: dirty, Op: op, K: k}) {
				return false, ""
			}
		}
	}
	return false, "a ten-level tree (700 keys, bf 2): cursor moves, lookups, inserts and deletes at shallow and deep positions, every fault position"
}

func init() {
	run.Register(run.Prop[C12Case]{
		ID:    "C12",
		Level: "fault_enumeration",
		Rule: "case = configuration (no cache, or a cold cache of the re-opened tree's own - big or one-slot - so loads really happen) + tree recipe + residency (in memory / reloaded / reloaded with a dirty region) + one operation of {Insert new, update, Delete, Get, Iter, SeekIter, DiffIter, DiffLinks, Clone, cursor Min/Max/Ceil/Ceil+Forward/Ceil+Backward} with a generated key. A fault-free dry run on an identically rebuilt tree counts the Load, KeyCompare and Marshal calls the operation makes; then EVERY single position of each class is enumerated (KeyCompare and Marshal sequences longer than 40: every position up to 40, every 3rd up to 160, every 17th beyond, and the last four), plus generated pairs, rebuilding the tree for each. Oracle: if the call returns an error then, with faults cleared, Size, Height and the full contents equal the pre-call model, and the same call retried succeeds with the dry run's result and the normal post-state. " +
			"Non-trivial = an erroring fault position >= 2 in a mutating operation on a tree with a dirty region (i.e. not a trivially early abort); distinct by case hash",
		Assumptions: []string{"a call that returns nil although a fault fired, and a panic under fault, are outside the statement: counted in the evidence, not judged", "KeyCompare is wrapped around mast.DefaultKeyCompare built from the configured (fault-injecting) marshaler, as LoadMast builds it"},
		Gen:         genC12,
		Run:         runC12,
		Enumerate:   enumC12Tall,
	})
}

func powU(b uint64, e uint) uint64 {
	r := uint64(1)
	for i := uint(0); i < e; i++ {
		if r > (1<<62)/b {
			return 1 << 62
		}
		r *= b
	}
	return r
}

// topLayerKeys counts the model's keys whose layer is at least h (the keys of the top node of a tree of height h).
func topLayerKeys(w *core.World, m core.Model, h uint8) int {
	n := 0
	for ki := range m {
		if w.Cfg.RefLayer(w.Pool[ki]) >= h {
			n++
		}
	}
	return n
}

func firstLines(s string, n int) string {
	lines := strings.Split(s, "\n")
	if len(lines) > n {
		lines = lines[:n]
	}
	return strings.Join(lines, "\n")
}
