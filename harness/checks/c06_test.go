package checks

import (
	"errors"
	"fmt"

	"github.com/jrhy/mast"
	"pgregory.net/rapid"
	"verif/harness/core"
	"verif/harness/run"
)

// C06 — entry diff reports exactly the differing keys, once each, in order.

type diffRec struct {
	Kind     string // add | remove | change
	K        int    // pool index
	Old, New int    // value numbers (-1 = none)
}

func modelDiff(oldM, newM core.Model, poolLen int) []diffRec {
	var out []diffRec
	for ki := 0; ki < poolLen; ki++ {
		ov, inOld := oldM[ki]
		nv, inNew := newM[ki]
		switch {
		case inOld && !inNew:
			out = append(out, diffRec{"remove", ki, ov, -1})
		case !inOld && inNew:
			out = append(out, diffRec{"add", ki, -1, nv})
		case inOld && inNew && ov != nv:
			out = append(out, diffRec{"change", ki, ov, nv})
		}
	}
	return out
}

func genC06(t *rapid.T, tier string) PairCase {
	c := genPair(t, tier, core.GenOpts{Caches: []string{"none", "none", "big", "arc4", "tiny2"}, BigOneIn: 12}, false)
	if rapid.IntRange(0, 9).Draw(t, "oldnil") == 0 {
		c.OldNil = true
	}
	c.StopAt = rapid.IntRange(-1, 8).Draw(t, "stopat")
	c.StopErr = rapid.Bool().Draw(t, "stoperr")
	c.StopKeep = rapid.Bool().Draw(t, "stopkeep")
	c.StopErrKind = rapid.SampledFrom([]int{0, 0, 1, 2, 3}).Draw(t, "stoperrkind")
	return c
}

var errStop = errors.New("harness: callback error")

// stopErrs are the errors a callback fails with (PairCase.StopErrKind).
var stopErrs = []error{errStop, mast.ErrNoMoreDiffs, fmt.Errorf("harness: inner cursor: %w", mast.ErrNoMoreDiffs), mast.ErrIterDone}

func runC06(c PairCase, o *run.Obs) error {
	p, ok := buildPair(c, o)
	if !ok {
		o.Label("aborted:base-failure")
		return nil
	}
	w := p.w
	oldModel := p.old.Model
	var oldM *mast.Mast = p.old.M
	if c.OldNil {
		oldModel = core.Model{}
		oldM = nil
	}
	want := modelDiff(oldModel, p.new.Model, len(w.Pool))
	desc := fmt.Sprintf("[%s] mode=%s old=%s(%s) new=%s(%s)", c.Cfg, c.Mode, w.DescribeModel(oldModel), c.OldRes, w.DescribeModel(p.new.Model), c.NewRes)
	val := func(n int) interface{} {
		if n < 0 {
			return nil
		}
		return w.Cfg.MakeVal(n)
	}
	matches := func(i int, kind string, key, oldV, newV interface{}) error {
		if i >= len(want) {
			return fmt.Errorf("%s: diff reported an extra entry #%d: %s %v (only %d keys differ)", desc, i, kind, key, len(want))
		}
		e := want[i]
		if w.Cfg.RefCompare(key, w.Pool[e.K]) != 0 || kind != e.Kind {
			return fmt.Errorf("%s: diff entry #%d is %s %v, expected %s %v", desc, i, kind, key, e.Kind, w.Pool[e.K])
		}
		if e.Kind != "add" && !core.EqualVal(oldV, val(e.Old)) {
			return fmt.Errorf("%s: diff entry #%d (%s %v) carries old value %#v, expected %#v", desc, i, kind, key, oldV, val(e.Old))
		}
		if e.Kind != "remove" && !core.EqualVal(newV, val(e.New)) {
			return fmt.Errorf("%s: diff entry #%d (%s %v) carries new value %#v, expected %#v", desc, i, kind, key, newV, val(e.New))
		}
		// a one-sided report has no value on the side where the key is absent (it must not carry another key's value)
		if e.Kind == "add" && oldV != nil {
			return fmt.Errorf("%s: diff entry #%d reports %v as added but carries an old value %#v; the key is not in the old tree", desc, i, key, oldV)
		}
		if e.Kind == "remove" && newV != nil {
			return fmt.Errorf("%s: diff entry #%d reports %v as removed but carries a new value %#v; the key is not in the new tree", desc, i, key, newV)
		}
		return nil
	}
	if c.Prelude > 0 && !c.OldNil {
		diffPrelude(p, c.Prelude)
		o.Label("after-an-abandoned-diff")
	}
	// 1. full DiffIter
	n := 0
	var cbErr error
	err := core.Safely("DiffIter", func() error {
		return p.new.M.DiffIter(core.Ctx, oldM, func(added, removed bool, key, addedValue, removedValue interface{}) (bool, error) {
			kind := "change"
			if added && removed {
				kind = "add+remove"
			} else if added {
				kind = "add"
			} else if removed {
				kind = "remove"
			}
			if e := matches(n, kind, key, removedValue, addedValue); e != nil && cbErr == nil {
				cbErr = e
			}
			n++
			return true, nil
		})
	})
	if err != nil {
		return fmt.Errorf("%s: DiffIter failed: %w", desc, err)
	}
	if cbErr != nil {
		return cbErr
	}
	if n != len(want) {
		return fmt.Errorf("%s: DiffIter reported %d entries, %d keys differ", desc, n, len(want))
	}
	// 2. cursor interface agrees, then ErrNoMoreDiffs
	var dc *mast.DiffCursor
	if err := core.Safely("StartDiff", func() error { var e error; dc, e = p.new.M.StartDiff(core.Ctx, oldM); return e }); err != nil {
		return fmt.Errorf("%s: StartDiff failed: %w", desc, err)
	}
	for i := 0; i <= len(want)+1; i++ {
		var d mast.Diff
		var derr error
		if err := core.Safely("NextEntry", func() error { d, derr = dc.NextEntry(core.Ctx); return nil }); err != nil {
			return fmt.Errorf("%s: %w", desc, err)
		}
		if i >= len(want) {
			if !errors.Is(derr, mast.ErrNoMoreDiffs) {
				return fmt.Errorf("%s: NextEntry call #%d after the %d differences returned (%+v, %v), expected ErrNoMoreDiffs", desc, i, len(want), d, derr)
			}
			continue
		}
		if derr != nil {
			return fmt.Errorf("%s: NextEntry #%d failed: %v (expected %d differences)", desc, i, derr, len(want))
		}
		kind := map[mast.DiffType]string{mast.DiffType_Add: "add", mast.DiffType_Remove: "remove", mast.DiffType_Change: "change"}[d.Type]
		if e := matches(i, kind, d.Key, d.OldValue, d.NewValue); e != nil {
			return fmt.Errorf("cursor interface: %w", e)
		}
	}
	// 3. early stop / callback error
	if c.StopAt >= 0 && c.StopAt < len(want) {
		calls := 0
		err := core.Safely("DiffIter", func() error {
			return p.new.M.DiffIter(core.Ctx, oldM, func(added, removed bool, key, av, rv interface{}) (bool, error) {
				calls++
				if calls-1 == c.StopAt {
					if c.StopErr {
						return c.StopKeep, stopErrs[c.StopErrKind%len(stopErrs)]
					}
					return false, nil
				}
				return true, nil
			})
		})
		if calls != c.StopAt+1 {
			return fmt.Errorf("%s: callback asked to stop at entry %d (err=%v) but was invoked %d times", desc, c.StopAt, c.StopErr, calls)
		}
		if c.StopErr {
			if se := stopErrs[c.StopErrKind%len(stopErrs)]; !errors.Is(err, se) {
				return fmt.Errorf("%s: callback returned the error %q at entry %d but DiffIter returned %v", desc, se, c.StopAt, err)
			}
		} else if err != nil {
			return fmt.Errorf("%s: callback returned keepGoing=false at entry %d but DiffIter returned error %v", desc, c.StopAt, err)
		}
		o.Label("early-stop-exercised")
	}
	// 4. diffing is read-only
	if err := p.wNew.Check(p.new); err != nil {
		return fmt.Errorf("%s: new tree changed by diffing: %w", desc, err)
	}
	if err := w.Check(p.old); err != nil {
		return fmt.Errorf("%s: old tree changed by diffing: %w", desc, err)
	}
	kinds := map[string]bool{}
	for _, e := range want {
		kinds[e.Kind] = true
	}
	o.NonTrivial = len(oldModel) > 0 && len(p.new.Model) > 0 && (c.Mode == "unrelated" || c.Mode == "otherstore" || (!c.OldNil && p.old.M.Height() != p.new.M.Height())) && len(kinds) == 3
	labelCfg(o, c.Cfg)
	o.Labelf("mode=%s", c.Mode)
	o.Labelf("old=%s", c.OldRes)
	o.Labelf("new=%s", c.NewRes)
	if c.OldNil {
		o.Label("old-nil")
	}
	if len(oldModel) == 0 && !c.OldNil {
		o.Label("old-empty")
	}
	if len(p.new.Model) == 0 {
		o.Label("new-empty")
	}
	if !c.OldNil && p.old.M.Height() != p.new.M.Height() {
		o.Label("heights-differ")
	}
	o.Labelf("ndiffs=%d", min(len(want)/5*5, 40))
	return nil
}

func init() {
	run.Register(run.Prop[PairCase]{
		ID:    "C06",
		Level: "exploration",
		Rule: "case = configuration + history of the old tree + mode (new = clone of old + <=12 ops / reload of old + ops / unrelated history over the same key pool / same version) + residency of each side (in memory, persisted in place, reloaded through the shared cache / no cache / a cache of its own, an unsaved clone of a clone) + nil-old flag + stop index/kind. Oracle: difference of the two model maps (keys whose presence or value differs, ascending, with kind and old/new values) must equal the DiffIter callback sequence AND the StartDiff/NextEntry sequence (followed by ErrNoMoreDiffs twice); a callback returning false / an error at index s gives exactly s+1 invocations and nil / that error; both trees unchanged afterwards. " +
			"Non-trivial = both sides non-empty AND (unrelated trees OR different heights) AND at least one add, one remove and one change; distinct by case hash",
		Assumptions: []string{"both trees have the same configuration (the property's precondition)"},
		Gen:         genC06,
		Run:         runC06,
		Enumerate:   enumWidePairs,
	})
}
