package checks

import (
	"fmt"

	"pgregory.net/rapid"
	"verif/harness/core"
	"verif/harness/ref"
	"verif/harness/run"
)

// C09 — every persisted version satisfies the MST shape invariants.

var c09Weights = core.OpWeights{
	core.OpInsert: 20, core.OpInsertNew: 30, core.OpUpdate: 4, core.OpDelete: 34,
	core.OpClone: 3, core.OpPersist: 10, core.OpReload: 5, core.OpReloadJSON: 1, core.OpDrain: 1,
}

func genC09(t *rapid.T, tier string) HistCase {
	return genHist(t, tier, core.GenOpts{
		Keys: []string{core.KLK, core.KLK, core.KLK, core.KLK, core.KInt, core.KUint64, core.KString, core.KBytes, core.KStruct, core.KInt64, core.KUint},
		Vals: []string{core.VInt, core.VString},
	}, c09Weights, 70, 140, 40, 2)
}

func validateVersion(w *core.World, sr *core.SavedRoot) (*ref.ShapeReport, error) {
	kf := ref.KeyFuncs{Decode: w.Cfg.UnmarshalKey, Marshal: w.Cfg.MarshalElem}
	rep, err := ref.ValidateShape(core.RootOf(sr.Root), w.Cfg.BF, w.Cfg.DecodeNode, w.Store.Peek, kf)
	if err != nil {
		return nil, err
	}
	return rep, nil
}

func runC09(c HistCase, o *run.Obs) error {
	passThrough, deepPersistAfterMerge := 0, 0
	var mm *core.Machine
	m, err := runHist(c, o, 2, func(w *core.World, m *core.Machine) {
		mm = m
		m.OnPersist = func(si int, t *core.Tree, sr *core.SavedRoot) error {
			rep, err := validateVersion(w, sr)
			if err != nil {
				return fmt.Errorf("persisted version #%d (height %d, size %d, entries %s) breaks the shape invariants: %w",
					mm.Ev.Persists, sr.Root.Height, sr.Root.Size, w.DescribeModel(sr.Model), err)
			}
			passThrough += rep.PassThrough
			if sr.Root.Height >= 2 && mm.Ev.MergingDeletes >= 1 {
				deepPersistAfterMerge++
			}
			return nil
		}
	}, nil)
	if err != nil || m == nil {
		return err
	}
	// always validate the final state of every slot too
	for _, t := range m.Slots {
		if t == nil {
			continue
		}
		sr, err := m.W.Persist(t)
		if err != nil {
			o.Label("aborted:base-failure")
			return nil
		}
		rep, err := validateVersion(m.W, sr)
		if err != nil {
			return fmt.Errorf("[%s] final version (height %d, size %d, entries %s) breaks the shape invariants: %w", c.Cfg, sr.Root.Height, sr.Root.Size, m.W.DescribeModel(sr.Model), err)
		}
		passThrough += rep.PassThrough
		if sr.Root.Height >= 2 && m.Ev.MergingDeletes >= 1 {
			deepPersistAfterMerge++
		}
	}
	o.NonTrivial = deepPersistAfterMerge >= 1
	labelCfg(o, c.Cfg)
	o.Labelf("maxheight=%d", m.Ev.MaxHeight)
	if passThrough > 0 {
		o.Label("pass-through-nodes-seen")
	}
	return nil
}

func enumC09(tier string, shard, nshards int, yield func(HistCase) bool) (bool, string) {
	exh, note := enumC04(tier, shard, nshards, func(c C04Case) bool {
		// history A of the C04 enumeration (insert n+2 keys in every order, delete two), persisting after every op
		var prog []core.Op
		for _, op := range c.HistA {
			prog = append(prog, op, core.Op{Kind: core.OpPersist})
		}
		model := map[int]bool{}
		for _, op := range c.HistA {
			model[op.K] = true
		}
		for _, k := range c.PermA[:2] {
			sel := 0
			for j := 0; j < k; j++ {
				if model[j] {
					sel++
				}
			}
			prog = append(prog, core.Op{Kind: core.OpDelete, K: sel}, core.Op{Kind: core.OpPersist})
			delete(model, k)
		}
		return yield(HistCase{Cfg: c.Cfg, Prog: prog})
	})
	if note != "" {
		note = "C04's enumeration (history A), persisting and validating after every operation: " + note
	}
	return exh, note
}

func init() {
	run.Register(run.Prop[HistCase]{
		ID:    "C09",
		Level: "exploration",
		Rule: "case = configuration (emphasis on user keys with adversarial generated layer tables, bf 2-64) + fill + program of <=70/140 ops with frequent persists; every persisted version (and the final state of every slot) is decoded from the recording store and validated clause by clause by the reference shape validator (levels, childless leaves, global strict key order, key layer == level / >= level in the top node, pass-through-only entry-less nodes, Size == reachable entries). " +
			"Non-trivial = a version of height >= 2 was persisted after at least one delete of a key of layer >= 1 (which merges the two neighbouring subtrees); distinct by case hash",
		Assumptions: []string{"the harness' decoder and key functions (harness/ref) are independent of mast and pinned by C14's golden vectors"},
		Gen:         genC09,
		Run:         runC09,
		Enumerate:   enumC09,
	})
}
