package checks

import (
	"fmt"
	"github.com/jrhy/mast"

	"pgregory.net/rapid"
	"verif/harness/core"
	"verif/harness/ref"
	"verif/harness/run"
)

// C09 — every persisted version satisfies the MST shape invariants.

var c09Weights = core.OpWeights{
	core.OpInsert: 20, core.OpInsertNew: 30, core.OpUpdate: 4, core.OpDelete: 30, core.OpDeleteTop: 8,
	core.OpClone: 3, core.OpPersistFail: 2, core.OpPersist: 10, core.OpReload: 5, core.OpReloadJSON: 1, core.OpDrain: 1,
}

const opFaulty = "faulty" // a delete (V=0) or insert (V=1) of pool key K during which the N-th Load fails

func genC09(t *rapid.T, tier string) HistCase {
	c := genC09base(t, tier)
	n := rapid.IntRange(0, 4).Draw(t, "nfaulty")
	for i := 0; i < n; i++ {
		pos := rapid.IntRange(0, len(c.Prog)).Draw(t, "faultypos")
		op := core.Op{Kind: opFaulty, Slot: rapid.IntRange(0, 1).Draw(t, "faultyslot"), K: rapid.IntRange(0, 63).Draw(t, "faultykey"),
			V: rapid.IntRange(0, 1).Draw(t, "faultykind"), N: rapid.IntRange(1, 6).Draw(t, "faultynth")}
		c.Prog = append(c.Prog[:pos], append([]core.Op{op}, c.Prog[pos:]...)...)
	}
	return c
}

func genC09base(t *rapid.T, tier string) HistCase {
	return genHist(t, tier, core.GenOpts{
		Keys:     []string{core.KLK, core.KLK, core.KLK, core.KLK, core.KInt, core.KUint64, core.KString, core.KBytes, core.KStruct, core.KInt64, core.KUint, core.KInt32, core.KUint16, core.KNamed},
		Vals:     []string{core.VInt, core.VInt, core.VString, core.VString, core.VTags, core.VNil},
		BigOneIn: 10,
	}, c09Weights, 70, 140, 40, 2)
}

func validateVersion(w *core.World, sr *core.SavedRoot) (*ref.ShapeReport, error) {
	kf := ref.KeyFuncs{Decode: w.Cfg.UnmarshalKey, Marshal: w.Cfg.MarshalElem}
	if w.Cfg.Cmp == "reversed" {
		kf.Compare = func(a, b interface{}) (int, error) { return w.Cfg.RefCompare(a, b), nil }
	}
	rep, err := ref.ValidateShape(core.RootOf(sr.Root), w.Cfg.BF, w.Cfg.DecodeNode, w.Store.Peek, kf)
	if err != nil {
		return nil, err
	}
	return rep, nil
}

func runC09(c HistCase, o *run.Obs) error {
	passThrough, deepPersistAfterMerge, faultyErrors := 0, 0, 0
	var mm *core.Machine
	// when an operation of the history itself fails, whatever the live trees persist at that moment must still be well-formed
	histOnAbort = func(w *core.World, m *core.Machine) error {
		for si, t := range m.Slots {
			if t == nil || t.InMemory {
				continue
			}
			var root *mast.Root
			if err := core.Safely("MakeRoot", func() error { var e error; root, e = t.M.MakeRoot(core.Ctx); return e }); err != nil || root == nil {
				continue
			}
			sr := &core.SavedRoot{Root: *root}
			if _, err := validateVersion(w, sr); err != nil {
				return fmt.Errorf("the version slot %d persists at that point (height %d, size %d) breaks the shape invariants: %w", si, root.Height, root.Size, err)
			}
		}
		return nil
	}
	defer func() { histOnAbort = nil }()
	m, err := runHist(c, o, 2, func(w *core.World, m *core.Machine) {
		mm = m
		m.Custom = func(op core.Op) (bool, error) {
			if op.Kind != opFaulty {
				return false, nil
			}
			si := op.Slot % len(m.Slots)
			if m.Slots[si] == nil {
				si = 0
			}
			t := m.Slots[si]
			base, _ := w.Store.Counters()
			w.Store.FailLoad = func(i int, name string) bool { return i == base+op.N }
			var opErr error
			perr := core.Safely("operation under fault", func() error {
				if op.V == 0 {
					if ki, ok := core.PresentKey(t.Model, op.K); ok {
						opErr = t.M.Delete(core.Ctx, w.Pool[ki], w.Cfg.MakeVal(t.Model[ki]))
						if opErr == nil {
							delete(t.Model, ki)
						}
					}
				} else if ki, ok := core.AbsentKey(t.Model, len(w.Pool), op.K); ok {
					opErr = t.M.Insert(core.Ctx, w.Pool[ki], w.Cfg.MakeVal(1))
					if opErr == nil {
						t.Model[ki] = 1
					}
				}
				return nil
			})
			w.Store.FailLoad = nil
			if perr != nil {
				return true, perr // a panic: the case is aborted as a base failure
			}
			if opErr != nil {
				faultyErrors++
				// what an erroring operation leaves behind is C12's subject; here only the shape of what gets persisted matters
				if err := w.ResyncModel(t); err != nil {
					return true, err
				}
			}
			return true, nil
		}
		m.OnPersist = func(si int, t *core.Tree, sr *core.SavedRoot) error {
			rep, err := validateVersion(w, sr)
			if err != nil {
				return fmt.Errorf("persisted version #%d (height %d, size %d, entries %s) breaks the shape invariants: %w",
					mm.Ev.Persists, sr.Root.Height, sr.Root.Size, w.DescribeModel(sr.Model), err)
			}
			passThrough += rep.PassThrough
			if sr.Root.Height >= 2 && mm.Ev.MergingDeletes >= 1 {
				deepPersistAfterMerge++
			}
			return nil
		}
	}, nil)
	if err != nil || m == nil {
		return err
	}
	// always validate the final state of every slot too
	for _, t := range m.Slots {
		if t == nil {
			continue
		}
		sr, err := m.W.Persist(t)
		if err != nil {
			o.Label("aborted:base-failure")
			return nil
		}
		rep, err := validateVersion(m.W, sr)
		if err != nil {
			return fmt.Errorf("[%s] final version (height %d, size %d, entries %s) breaks the shape invariants: %w", c.Cfg, sr.Root.Height, sr.Root.Size, m.W.DescribeModel(sr.Model), err)
		}
		passThrough += rep.PassThrough
		if sr.Root.Height >= 2 && m.Ev.MergingDeletes >= 1 {
			deepPersistAfterMerge++
		}
	}
	o.NonTrivial = deepPersistAfterMerge >= 1
	labelCfg(o, c.Cfg)
	o.Labelf("maxheight=%d", m.Ev.MaxHeight)
	if passThrough > 0 {
		o.Label("pass-through-nodes-seen")
	}
	if faultyErrors > 0 {
		o.Label("operation-failed-under-load-fault")
	}
	return nil
}

func enumC09(tier string, shard, nshards int, yield func(HistCase) bool) (bool, string) {
	stopped := false
	_, wideNote := enumWide(tier, shard, nshards, func(h HistCase) bool {
		if !yield(h) {
			stopped = true
			return false
		}
		return true
	})
	if stopped {
		return false, ""
	}
	exh, note := enumC04(tier, shard, nshards, func(c C04Case) bool {
		// history A of the C04 enumeration (insert n+2 keys in every order, delete two), persisting after every op
		var prog []core.Op
		for _, op := range c.HistA {
			prog = append(prog, op, core.Op{Kind: core.OpPersist})
		}
		model := map[int]bool{}
		for _, op := range c.HistA {
			model[op.K] = true
		}
		for _, k := range c.PermA[:2] {
			sel := 0
			for j := 0; j < k; j++ {
				if model[j] {
					sel++
				}
			}
			prog = append(prog, core.Op{Kind: core.OpDelete, K: sel}, core.Op{Kind: core.OpPersist})
			delete(model, k)
		}
		return yield(HistCase{Cfg: c.Cfg, Prog: prog})
	})
	if note != "" {
		note = "C04's enumeration (history A), persisting and validating after every operation: " + note + "; plus "
	}
	return exh, note + wideNote
}

func init() {
	run.Register(run.Prop[HistCase]{
		ID:    "C09",
		Level: "exploration",
		Rule: "case = configuration (emphasis on user keys with adversarial generated layer tables, bf 2-64) + fill + program of <=70/140 ops with frequent persists; every persisted version (and the final state of every slot) is decoded from the recording store and validated clause by clause by the reference shape validator (levels, childless leaves, global strict key order, key layer == level / >= level in the top node, pass-through-only entry-less nodes, Size == reachable entries). " +
			"Non-trivial = a version of height >= 2 was persisted after at least one delete of a key of layer >= 1 (which merges the two neighbouring subtrees); distinct by case hash",
		Assumptions: []string{"the harness' decoder and key functions (harness/ref) are independent of mast and pinned by C14's golden vectors"},
		Gen:         genC09,
		Run:         runC09,
		Enumerate:   enumC09,
	})
}
