package checks

import (
	"errors"
	"fmt"
	"github.com/jrhy/mast"

	"pgregory.net/rapid"
	"verif/harness/core"
	"verif/harness/ref"
	"verif/harness/run"
)

// C04 — canonical form: equal contents give the identical root, which is the
// root of the unique MST built independently by the reference.

type C04Case struct {
	Cfg    core.Config `json:"cfg"`
	Target [][2]int    `json:"target"` // (pool index, value number) pairs of the final entry set
	HistA  []core.Op   `json:"hist_a"`
	HistB  []core.Op   `json:"hist_b"`
	PermA  []int       `json:"perm_a"` // order in which the fix-up visits pool keys
	PermB  []int       `json:"perm_b"`
	// Disturb > 0: before each history, a tree with THIS other branch factor is given the target entries and persisted
	// into the same store through the same node cache (byte-identical nodes of a tree with another configuration)
	Disturb uint `json:"disturb,omitempty"`
	// DisturbKeys, when set, are the pool keys (value 0) the other tree holds instead of the target entries
	DisturbKeys []int `json:"disturb_keys,omitempty"`
}

var c04Weights = core.OpWeights{
	core.OpInsert: 20, core.OpInsertNew: 30, core.OpUpdate: 6, core.OpDelete: 30, core.OpDeleteTop: 6, core.OpInsertSame: 2,
	core.OpClone: 3, core.OpPersist: 6, core.OpReload: 4, core.OpReloadJSON: 1, core.OpDrain: 1,
}

func genC04(t *rapid.T, tier string) C04Case {
	cfg := core.GenConfig(t, tier, core.GenOpts{
		Keys:       []string{core.KLK, core.KLK, core.KLK, core.KLK, core.KInt, core.KUint64, core.KString, core.KBytes, core.KStruct, core.KInt64, core.KUint, core.KInt32, core.KUint16, core.KNamed},
		Vals:       []string{core.VInt, core.VInt, core.VString, core.VBytes, core.VLong, core.VPtr, core.VTags},
		NoCustomV1: true,
		BigOneIn:   12,
	})
	pool := cfg.Pool()
	c := C04Case{Cfg: cfg}
	n := rapid.IntRange(0, len(pool)).Draw(t, "targetsize")
	perm := rapid.Permutation(idx(len(pool))).Draw(t, "targetkeys")
	for _, ki := range perm[:n] {
		c.Target = append(c.Target, [2]int{ki, rapid.IntRange(0, 3).Draw(t, "tv")})
	}
	maxOps := 60
	if tier == "thorough" {
		maxOps = 120
	}
	c.HistA = append(core.GenFillCfg(t, cfg, len(pool)), core.GenProgram(t, core.WithBulk(c04Weights, cfg), maxOps, 2)...)
	c.HistB = append(core.GenFillCfg(t, cfg, len(pool)), core.GenProgram(t, core.WithBulk(c04Weights, cfg), maxOps, 2)...)
	c.PermA = rapid.Permutation(idx(len(pool))).Draw(t, "permA")
	c.PermB = rapid.Permutation(idx(len(pool))).Draw(t, "permB")
	if rapid.IntRange(0, 4).Draw(t, "disturb") == 0 && !cfg.IsBig() {
		c.Disturb = rapid.SampledFrom([]uint{2, 3, 4, 5, 16}).Draw(t, "disturbbf")
		if c.Disturb == cfg.BF {
			c.Disturb = cfg.BF + 1
		}
	}
	return c
}

func idx(n int) []int {
	out := make([]int, n)
	for i := range out {
		out[i] = i
	}
	return out
}

type c04Result struct {
	root    ref.Root
	ev      core.Events
	aborted bool
}

func refRootErr(w *core.World, model core.Model, got ref.Root, what string) error {
	want, _ := w.RefRoot(model)
	if got != want {
		return fmt.Errorf("%s: MakeRoot returned {Link:%q Height:%d Size:%d} but the unique MST of the %d entries %s has {Link:%q Height:%d Size:%d}",
			what, got.Link, got.Height, got.Size, len(model), w.DescribeModel(model), want.Link, want.Height, want.Size)
	}
	return nil
}

func c04History(c C04Case, hist []core.Op, perm []int, name string) (c04Result, error) {
	var res c04Result
	w := core.NewWorld(c.Cfg)
	m, err := core.NewMachine(w, 2)
	if err != nil {
		res.aborted = true
		return res, nil
	}
	if c.Disturb > 0 {
		opts := &mast.CreateRemoteOptions{BranchFactor: c.Disturb, NodeFormat: mast.V115Binary}
		if c.Cfg.Format == ref.FormatV1 {
			opts.NodeFormat = mast.V1Marshaler
		}
		_ = core.Safely("other tree", func() error {
			om, err := mast.NewRoot(opts).LoadMast(core.Ctx, w.RemoteConfig(w.Store, w.Cache))
			if err != nil {
				return err
			}
			held := c.Target
			if c.DisturbKeys != nil {
				held = nil
				for _, k := range c.DisturbKeys {
					held = append(held, [2]int{k, 0})
				}
			}
			for _, kv := range held {
				if err := om.Insert(core.Ctx, w.Pool[kv[0]%len(w.Pool)], w.Cfg.MakeVal(kv[1])); err != nil {
					return err
				}
			}
			_, err = om.MakeRoot(core.Ctx)
			return err
		})
	}
	var perr error
	m.OnPersist = func(si int, t *core.Tree, sr *core.SavedRoot) error {
		if e := refRootErr(w, sr.Model, core.RootOf(sr.Root), fmt.Sprintf("history %s, intermediate persist #%d", name, m.Ev.Persists)); e != nil {
			perr = e
		}
		return nil
	}
	for _, op := range hist {
		if err := m.Step(op); err != nil && !errors.Is(err, core.ErrSkipped) {
			res.aborted = true
			return res, nil
		}
		if perr != nil {
			return res, perr
		}
	}
	// fix-up: reach exactly the target entry set in the order given by perm
	t := m.Slots[0]
	target := map[int]int{}
	for _, kv := range c.Target {
		target[kv[0]] = kv[1]
	}
	for _, ki := range perm {
		ki = ki % len(w.Pool)
		want, inTarget := target[ki]
		cur, present := t.Model[ki]
		var op core.Op
		switch {
		case inTarget && (!present || cur != want):
			op = core.Op{Kind: core.OpInsert, K: ki, V: want, Raw: true}
		case !inTarget && present:
			sel := 0
			for _, k := range t.Model.Keys() {
				if k == ki {
					break
				}
				sel++
			}
			op = core.Op{Kind: core.OpDelete, K: sel, Raw: true}
		default:
			continue
		}
		if err := m.Step(op); err != nil {
			res.aborted = true
			return res, nil
		}
	}
	for ki, v := range target { // permutations from old replay files may miss keys
		if cur, ok := t.Model[ki]; !ok || cur != v {
			if err := m.Step(core.Op{Kind: core.OpInsert, K: ki, V: v, Raw: true}); err != nil {
				res.aborted = true
				return res, nil
			}
		}
	}
	sr, err := w.Persist(t)
	if err != nil {
		res.aborted = true
		return res, nil
	}
	res.root = core.RootOf(sr.Root)
	res.ev = m.Ev
	if e := refRootErr(w, t.Model, res.root, "history "+name+", final persist"); e != nil {
		return res, e
	}
	return res, nil
}

func runC04(c C04Case, o *run.Obs) error {
	ra, err := c04History(c, c.HistA, c.PermA, "A")
	if err != nil {
		return fmt.Errorf("[%s] %w", c.Cfg, err)
	}
	rb, err := c04History(c, c.HistB, c.PermB, "B")
	if err != nil {
		return fmt.Errorf("[%s] %w", c.Cfg, err)
	}
	if ra.aborted || rb.aborted {
		o.Label("aborted:base-failure")
		return nil
	}
	if ra.root != rb.root {
		return fmt.Errorf("[%s] two histories ending in the same %d entries produced different roots: A=%+v B=%+v", c.Cfg, len(c.Target), ra.root, rb.root)
	}
	o.NonTrivial = ra.ev.Deletes > 0 && rb.ev.Deletes > 0 && len(c.Target) >= int(c.Cfg.BF)+1 && (ra.ev.HeightDrops > 0 || rb.ev.HeightDrops > 0)
	o.Labelf("key=%s", c.Cfg.Key)
	o.Labelf("bf=%d", c.Cfg.BF)
	o.Labelf("final-height=%d", ra.root.Height)
	if len(c.Target) == 0 {
		o.Label("target-empty")
	}
	if ra.ev.HeightDrops+rb.ev.HeightDrops > 0 {
		o.Label("height-dropped-on-the-way")
	}
	if ra.ev.Reloads+rb.ev.Reloads > 0 {
		o.Label("has-reload")
	}
	return nil
}

// small-scope exhaustive: every insertion order of n<=5 keys and every
// deletion order from n+2 keys down to n, for every layer table in {0,1,2}^n+2, bf in {2,3}.
// enumThresholds: for every branch factor 2..20, 32 and 64 and every power p = bf^h up to 1300, a tree of the uint64 keys 0..p+2
// (key p has layer h) is taken from p+3 entries down to p entries one delete at a time, persisting at p+2, p+1 (height
// must still be h: size-1 = bf^h) and p (one level less); the second history reaches the same final set directly.
func enumThresholds(shard, nshards int, yield func(C04Case) bool) bool {
	count := 0
	bfs := []uint{2, 3, 4, 5, 6, 7, 8, 9, 10, 11, 12, 13, 14, 15, 16, 17, 18, 19, 20, 32, 64}
	for _, bf := range bfs {
		for p := int(bf); p <= 1300; p *= int(bf) {
			for _, format := range core.Formats {
				count++
				if count%nshards != shard || (format == ref.FormatV1 && p > 300) {
					continue
				}
				cfg := core.Config{BF: bf, Format: format, Key: core.KUint64, Val: core.VInt, Cache: "none", Marshaler: "json", Big: p + 3}
				histA := []core.Op{{Kind: core.OpBulkIns, K: 0, V: 0, N: p + 3}, {Kind: core.OpPersist},
					{Kind: core.OpDelete, K: 0, Raw: true}, {Kind: core.OpPersist},
					{Kind: core.OpDelete, K: 0, Raw: true}, {Kind: core.OpPersist},
					{Kind: core.OpDelete, K: 0, Raw: true}, {Kind: core.OpPersist},
					{Kind: core.OpInsert, K: 1, V: 2, Raw: true}, {Kind: core.OpPersist}, // back above the threshold: the level returns
					{Kind: core.OpDelete, K: 0, Raw: true}}
				var target [][2]int
				for k := 3; k < p+3; k++ {
					target = append(target, [2]int{k, k % 4})
				}
				histB := []core.Op{{Kind: core.OpBulkIns, K: 3, V: 1, N: p / 2}}
				perm := idx(p + 3)
				if !yield(C04Case{Cfg: cfg, Target: target, HistA: histA, HistB: histB, PermA: perm, PermB: perm}) {
					return false
				}
			}
		}
	}
	return true
}

// enumTwins: small key sets whose tree is byte-for-byte the same at two different branch factors. A tree with branch factor
// a persists the set through a node cache; a tree with branch factor b then persists the same set into the same store through
// the same cache, is re-opened, and grows key by key across its thresholds, persisting after every insert. Whatever the cached
// nodes remember from the first tree must not leak into the second.
func enumTwins(shard, nshards int, yield func(C04Case) bool) bool {
	const n = 18 // user keys 0..n-1 with layers = the integer layer rule of key number k+1
	count := 0
	for _, pair := range [][2]uint{{2, 3}, {3, 2}, {2, 4}, {4, 2}, {3, 4}, {2, 5}} {
		a, b := pair[0], pair[1]
		// keys are plain ints (the layer of an int depends on the branch factor)
		cfgB := core.Config{BF: b, Format: ref.FormatBinary, Key: core.KInt, Val: core.VInt, Cache: "big", Marshaler: "json", Big: 42} // the ints -14..27 at either branch factor
		cfgA := cfgB
		cfgA.BF = a
		pool := cfgB.Pool()
		wA, wB := core.NewWorld(cfgA), core.NewWorld(cfgB)
		found := 0
		for mask := 1; mask < 1<<16 && found < 5; mask++ {
			var keys []int
			for i := 0; i < 16; i++ {
				if mask&(1<<i) != 0 {
					keys = append(keys, i+15) // the ints 1..16
				}
			}
			if len(keys) != 4 {
				continue
			}
			model := core.Model{}
			for _, k := range keys {
				model[k] = 0
			}
			ra, _ := wA.RefRoot(model)
			rb, _ := wB.RefRoot(model)
			if ra.Link == "" || ra.Link != rb.Link || ra.Height < 1 || ra.Height != rb.Height {
				continue
			}
			found++
			count++
			if count%nshards != shard {
				continue
			}
			hist := []core.Op{}
			for _, k := range keys {
				hist = append(hist, core.Op{Kind: core.OpInsert, K: k, V: 0, Raw: true})
			}
			hist = append(hist, core.Op{Kind: core.OpPersist}, core.Op{Kind: core.OpReload, N: 0})
			target := [][2]int{}
			for _, k := range keys {
				target = append(target, [2]int{k, 0})
			}
			// first only keys that land below the top node, without persisting in between, until well past the next
			// size threshold; then a persist; then every other key, persisting after each
			var later []int
			low := 0
			for k := 0; k < len(pool); k++ {
				if _, in := model[k]; in {
					continue
				}
				if cfgB.RefLayer(pool[k]) == 0 && low < int(b*b*b) {
					hist = append(hist, core.Op{Kind: core.OpInsert, K: k, V: 1, Raw: true})
					target = append(target, [2]int{k, 1})
					low++
					if low == int(b*b)-len(keys)+1 || low == int(b*b*b)-len(keys)+1 {
						hist = append(hist, core.Op{Kind: core.OpPersist})
					}
				} else {
					later = append(later, k)
				}
			}
			hist = append(hist, core.Op{Kind: core.OpPersist})
			for _, k := range later {
				hist = append(hist, core.Op{Kind: core.OpInsert, K: k, V: 1, Raw: true}, core.Op{Kind: core.OpPersist})
				target = append(target, [2]int{k, 1})
			}
			if !yield(C04Case{Cfg: cfgB, Target: target, HistA: hist, HistB: nil, PermA: idx(len(pool)), PermB: idx(len(pool)), Disturb: a, DisturbKeys: keys}) {
				return false
			}
		}
	}
	return true
}

func enumC04(tier string, shard, nshards int, yield func(C04Case) bool) (bool, string) {
	if !enumThresholds(shard, nshards, yield) {
		return false, ""
	}
	if !enumTwins(shard, nshards, yield) {
		return false, ""
	}
	if tier != "thorough" {
		return false, "size thresholds: bf in 2..20, 32, 64 x every power bf^h <= 1300: trees of bf^h+3 consecutive keys deleted down to bf^h entries one at a time (and back up), persisted at every size"
	}
	count := 0
	for _, bf := range []uint{2, 3} {
		for n := 1; n <= 4; n++ {
			total := n + 2
			tables := 1
			for i := 0; i < total; i++ {
				tables *= 3
			}
			perms := permutations(total)
			for tb := 0; tb < tables; tb++ {
				layers := make([]uint8, total)
				x := tb
				for i := range layers {
					layers[i] = uint8(x % 3)
					x /= 3
				}
				cfg := core.Config{BF: bf, Format: ref.FormatBinary, Key: core.KLK, Val: core.VInt, Cache: "none", Marshaler: "json", LKLayers: layers}
				// choose which n of the total keys remain: all C(total, n) subsets via the first n of each permutation is redundant;
				// use permutations directly: insert all keys in perm order (history A), then delete the last two of the perm;
				// history B inserts only the remaining keys in ascending order.
				for _, p := range perms {
					count++
					if count%nshards != shard {
						continue
					}
					var histA []core.Op
					for _, k := range p {
						histA = append(histA, core.Op{Kind: core.OpInsert, K: k, V: 0})
					}
					var target [][2]int
					keep := append([]int(nil), p[:n]...)
					for _, k := range keep {
						target = append(target, [2]int{k, 0})
					}
					// fix-up order for A: delete in the order p[n+1], p[n] (reverse insertion) — part of the perm
					permA := []int{p[n+1], p[n]}
					for _, k := range keep {
						permA = append(permA, k)
					}
					permB := append([]int(nil), keep...)
					for i, j := 0, len(permB)-1; i < j; i, j = i+1, j-1 {
						permB[i], permB[j] = permB[j], permB[i]
					}
					permB = append(permB, p[n], p[n+1])
					if !yield(C04Case{Cfg: cfg, Target: target, HistA: histA, HistB: nil, PermA: permA, PermB: permB}) {
						return false, ""
					}
				}
			}
		}
	}
	return true, "bf in {2,3}: every insertion order of n+2 user keys (n=1..4), every layer table in {0,1,2}^(n+2), then delete two keys (history A) vs. inserting only the remaining n keys in reverse insertion order (history B)"
}

func permutations(n int) [][]int {
	var out [][]int
	p := idx(n)
	var rec func(k int)
	rec = func(k int) {
		if k == n {
			out = append(out, append([]int(nil), p...))
			return
		}
		for i := k; i < n; i++ {
			p[k], p[i] = p[i], p[k]
			rec(k + 1)
			p[k], p[i] = p[i], p[k]
		}
	}
	rec(0)
	return out
}

func init() {
	run.Register(run.Prop[C04Case]{
		ID:    "C04",
		Level: "exploration",
		Rule: "case = configuration (user keys with a generated layer table, or built-in key types with their real layers) + target entry set + two independent generated histories (inserts, updates, deletes, clones, persists, reloads, drains; separate stores) each followed by a fix-up in a generated order that reaches exactly the target; both final roots and every intermediate persisted root are compared with the root of the MST built by the independent reference (height rule min(max layer, floor(log_bf(size-1)))). " +
			"Non-trivial = both histories contain deletes AND |target| >= bf+1 AND the height dropped during at least one history; distinct by case hash",
		Assumptions: []string{"reference MST builder and encoder (harness/ref) are themselves pinned by the golden vectors of C14", "custom marshaler only combined with the binary format (the reference does not re-implement the custom v1 node encoding)"},
		Gen:         genC04,
		Run:         runC04,
		Enumerate:   enumC04,
	})
}
