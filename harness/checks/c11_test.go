package checks

import (
	"context"
	"errors"
	"fmt"
	"os"
	"sync"
	"time"

	"github.com/jrhy/mast/persist/file"
	s3persist "github.com/jrhy/mast/persist/s3"

	"github.com/jrhy/mast"
	"pgregory.net/rapid"
	"verif/harness/core"
	"verif/harness/env"
	"verif/harness/run"
)

// C11 — independent trees sharing a store and node cache are safe to use concurrently.
// This check is meant to run in the -race build of the harness (the driver does that).

type C11Worker struct {
	Source string    `json:"source"` // load | clone | fresh
	Root   int       `json:"root"`
	Prog   []core.Op `json:"prog"`
}

type C11Case struct {
	Cfg     core.Config `json:"cfg"`
	Env     string      `json:"env"`  // frozen | real
	Base    []core.Op   `json:"base"` // single-threaded history; every persist yields a root workers can start from
	Workers []C11Worker `json:"workers"`
}

var c11WorkerWeights = core.OpWeights{
	core.OpInsert: 20, core.OpInsertNew: 20, core.OpDelete: 20, core.OpUpdate: 6, core.OpGet: 8, core.OpIter: 4,
	core.OpPersist: 8, core.OpReload: 5, core.OpClone: 2,
	core.OpIterStop: 3, // interpreted by the workers as a cursor walk (Cursor, Min, Forward ...) compared with the model
	core.OpSize:     6, // interpreted by the workers as "diff the tree against the version it started from" (DiffIter + DiffLinks)
}

func genC11(t *rapid.T, tier string) C11Case {
	c := C11Case{Cfg: core.GenConfig(t, tier, core.GenOpts{
		Caches: []string{"big"}, Vals: []string{core.VInt, core.VString},
		Keys: []string{core.KLK, core.KLK, core.KInt, core.KString, core.KUint64, core.KStruct, core.KStruct, core.KBytes},
		BFs:  []uint{2, 2, 3, 4, 16},
	})}
	c.Env = rapid.SampledFrom([]string{"frozen", "frozen", "frozen", "real", "real", "file", "s3", "isolation"}).Draw(t, "env")
	pool := len(c.Cfg.Pool())
	c.Base = append(core.GenFill(t, pool, pool), core.GenProgram(t, core.OpWeights{core.OpInsertNew: 5, core.OpDelete: 5, core.OpPersist: 3}, 12, 1)...)
	n := rapid.IntRange(2, 8).Draw(t, "nworkers")
	identical := c.Env != "frozen" && rapid.Bool().Draw(t, "identical")
	var shared []core.Op
	if identical {
		shared = core.GenProgram(t, c11WorkerWeights, 30, 1)
	}
	for i := 0; i < n; i++ {
		w := C11Worker{Source: rapid.SampledFrom([]string{"load", "load", "clone", "fresh"}).Draw(t, "source"), Root: rapid.IntRange(0, 3).Draw(t, "root")}
		if identical {
			w.Prog = shared // identical programs produce identical nodes (publication through the shared cache)
			w.Source = "load"
			w.Root = 0
		} else {
			w.Prog = core.GenProgram(t, c11WorkerWeights, 30, 1)
		}
		c.Workers = append(c.Workers, w)
	}
	return c
}

type c11Result struct {
	err       error
	mutations int
	served    []interface{}
}

func runC11(c C11Case, o *run.Obs) error {
	w := core.NewWorld(c.Cfg) // cache "big": a harness map cache used to pre-warm
	m, err := core.NewMachine(w, 1)
	if err != nil {
		o.Label("aborted:base-failure")
		return nil
	}
	for _, op := range c.Base {
		op.Slot = 0
		if err := m.Step(op); err != nil && !errors.Is(err, core.ErrSkipped) {
			o.Label("aborted:base-failure")
			return nil
		}
	}
	sr, err := w.Persist(m.Slots[0])
	if err != nil {
		o.Label("aborted:base-failure")
		return nil
	}
	roots := append(m.Roots, sr)

	if c.Env == "isolation" {
		return runC11Isolation(c, o, w, roots)
	}
	var realStore mast.Persist
	var realCache mast.NodeCache
	var base *env.FrozenBase
	switch c.Env {
	case "file":
		dir, err := os.MkdirTemp(os.Getenv("VERIF_OUT"), "c11-")
		if err != nil {
			return fmt.Errorf("harness: %w", err)
		}
		defer os.RemoveAll(dir)
		realStore = file.NewPersistForPath(dir)
		realCache = mast.NewNodeCache(64)
		for name, b := range w.Store.Snapshot() {
			if err := realStore.Store(core.Ctx, name, b); err != nil {
				return fmt.Errorf("harness: seeding the file store: %w", err)
			}
		}
	case "s3":
		// the S3 backend over an in-memory client, one store object shared by all goroutines
		sp := s3persist.NewPersist(env.NewMiniS3(), "https://s3.example", "bucket", "nodes/")
		realStore = &sp
		realCache = mast.NewNodeCache([]int{256, 8}[len(c.Workers)%2])
		for name, b := range w.Store.Snapshot() {
			if err := realStore.Store(core.Ctx, name, b); err != nil {
				return fmt.Errorf("harness: seeding the S3 store: %w", err)
			}
		}
	case "real":
		realStore = mast.NewInMemoryStore()
		// a roomy cache or a small, constantly evicting one (evictions mean re-loads and re-publication)
		realCache = mast.NewNodeCache([]int{256, 8, 3}[len(c.Workers)%3])
		for name, b := range w.Store.Snapshot() {
			realStore.Store(core.Ctx, name, b)
		}
	default:
		// pre-warm: load every root completely through the (locked) map cache, single-threaded
		for _, r := range roots {
			lt, err := w.Load(r, nil, w.Cache, false)
			if err != nil {
				o.Label("aborted:base-failure")
				return nil
			}
			if err := w.Check(lt); err != nil {
				o.Label("aborted:base-failure")
				return nil
			}
		}
		base = &env.FrozenBase{Prefix: w.Store.NodeURLPrefix(), Nodes: w.Store.Snapshot(), Cached: w.MapCache.Snapshot()}
	}

	type workerState struct {
		t      *core.Tree
		snap   *core.Tree // the version the worker started from (never mutated)
		store  mast.Persist
		cache  mast.NodeCache
		fcache *env.FrozenCache
		last   *core.SavedRoot
	}
	states := make([]*workerState, len(c.Workers))
	// one parent per root for the "clone" workers, created single-threaded: sibling clones of one
	// parent are distinct trees too (they share the parent's store/cache view and whatever the
	// tree struct copies by value)
	type parentState struct {
		last   *core.Tree // the most recent clone in the chain
		t      *core.Tree
		store  mast.Persist
		cache  mast.NodeCache
		fcache *env.FrozenCache
	}
	parents := map[int]*parentState{}
	newView := func() (mast.Persist, mast.NodeCache, *env.FrozenCache) {
		if c.Env != "frozen" {
			return realStore, realCache, nil
		}
		fc := env.NewFrozenCache(base)
		return env.NewFrozenStore(base), fc, fc
	}
	for i, wk := range c.Workers {
		st := &workerState{}
		st.store, st.cache, st.fcache = newView()
		ri := wk.Root % len(roots)
		r := roots[ri]
		st.last = r
		switch wk.Source {
		case "clone":
			ps := parents[ri]
			if ps == nil {
				ps = &parentState{}
				ps.store, ps.cache, ps.fcache = newView()
				parent, err := w.Load(r, ps.store, ps.cache, false)
				if err != nil {
					o.Label("aborted:base-failure")
					return nil
				}
				// the parent has been used before it is cloned (a diff, a lookup)
				if empty, err := w.Load(&core.SavedRoot{Root: *w.NewRoot(), Model: core.Model{}}, ps.store, ps.cache, false); err == nil {
					core.Safely("DiffLinks", func() error {
						return parent.M.DiffLinks(core.Ctx, empty.M, func(bool, interface{}) (bool, error) { return true, nil })
					})
				}
				// and it carries unsaved changes: its clones share unpersisted nodes
				for j := 0; j < 3; j++ {
					if ki, ok := core.AbsentKey(parent.Model, len(w.Pool), ri*7+j*3); ok {
						if err := w.Insert(parent, ki, j); err != nil {
							o.Label("aborted:base-failure")
							return nil
						}
					}
				}
				if (ri+len(c.Workers))%2 == 0 {
					// ... and it has been persisted once before (whatever a tree sets up lazily at its first flush
					// exists by the time it is cloned), then modified again
					if _, err := w.Persist(parent); err != nil {
						o.Label("aborted:base-failure")
						return nil
					}
					for j := 0; j < 3; j++ {
						if ki, ok := core.AbsentKey(parent.Model, len(w.Pool), ri*5+j*11+1); ok {
							if err := w.Insert(parent, ki, j+1); err != nil {
								o.Label("aborted:base-failure")
								return nil
							}
						}
					}
				}
				ps.t = parent
				ps.last = parent
				parents[ri] = ps
			}
			st.store, st.cache, st.fcache = ps.store, ps.cache, ps.fcache
			// alternately a clone of the parent and a clone of the previous clone (clone chains)
			from := ps.t
			if i%2 == 1 {
				from = ps.last
			}
			var err error
			if st.t, err = w.Clone(from); err != nil {
				o.Label("aborted:base-failure")
				return nil
			}
			ps.last = st.t
			st.last = nil // unsaved: nothing to reload before the first persist
		case "fresh":
			var mm *mast.Mast
			if err := core.Safely("LoadMast", func() error {
				var e error
				mm, e = w.NewRoot().LoadMast(core.Ctx, w.RemoteConfig(st.store, st.cache))
				return e
			}); err != nil {
				o.Label("aborted:base-failure")
				return nil
			}
			st.t = &core.Tree{M: mm, Model: core.Model{}}
			st.last = nil
		}
		states[i] = st
	}

	results := make([]c11Result, len(c.Workers))
	var wg sync.WaitGroup
	start := make(chan struct{})
	for i := range c.Workers {
		wg.Add(1)
		go func(i int) {
			defer wg.Done()
			<-start
			wk, st := c.Workers[i], states[i]
			res := &results[i]
			res.err = core.Safely("worker", func() error {
				if st.t == nil { // "load": open the root inside the goroutine
					lt, err := w.Load(st.last, st.store, st.cache, false)
					if err != nil {
						return fmt.Errorf("LoadMast: %w", err)
					}
					st.t = lt
				}
				poolLen := len(w.Pool)
				if snap, err := w.Clone(st.t); err == nil {
					st.snap = snap
				}
				for si, op := range wk.Prog {
					t := st.t
					var err error
					switch op.Kind {
					case core.OpInsert:
						err = w.Insert(t, op.K%poolLen, op.V)
						res.mutations++
					case core.OpInsertNew:
						if ki, ok := core.AbsentKey(t.Model, poolLen, op.K); ok {
							err = w.Insert(t, ki, op.V)
							res.mutations++
						}
					case core.OpUpdate:
						if ki, ok := core.PresentKey(t.Model, op.K); ok {
							err = w.Insert(t, ki, t.Model[ki]+1)
							res.mutations++
						}
					case core.OpDelete:
						if ki, ok := core.PresentKey(t.Model, op.K); ok {
							err = w.Delete(t, ki)
							res.mutations++
						}
					case core.OpSize:
						if st.snap != nil {
							want := len(modelDiff(st.snap.Model, t.Model, poolLen))
							n := 0
							err = t.M.DiffIter(core.Ctx, st.snap.M, func(a, r bool, k, av, rv interface{}) (bool, error) { n++; return true, nil })
							if err == nil && n != want {
								err = fmt.Errorf("DiffIter against the version the worker started from reports %d entries, %d keys differ", n, want)
							}
							if err == nil {
								// the node diff runs too (its result for unpersisted trees is not specified; the race detector watches it)
								err = t.M.DiffLinks(core.Ctx, st.snap.M, func(removed bool, l interface{}) (bool, error) { return true, nil })
							}
						}
					case core.OpIterStop:
						var cur *mast.Cursor
						if cur, err = t.M.Cursor(core.Ctx); err == nil {
							err = walkCursor(w, &heldCursor{c: cur, model: t.Model.Clone(), at: si})
						}
					case core.OpGet:
						err = w.Get(t, op.K%poolLen)
					case core.OpIter:
						err = w.Check(t)
					case core.OpPersist:
						var sr *core.SavedRoot
						if sr, err = w.Persist(t); err == nil {
							st.last = sr
						}
					case core.OpReload:
						if st.last != nil {
							var lt *core.Tree
							if lt, err = w.Load(st.last, st.store, st.cache, false); err == nil {
								st.t = lt
							}
						}
					case core.OpClone:
						var cl *core.Tree
						if cl, err = w.Clone(t); err == nil {
							st.t = cl
						}
					}
					if err != nil {
						return fmt.Errorf("step %d %s: %w", si, op, err)
					}
				}
				return w.Check(st.t)
			})
			if st.fcache != nil {
				res.served = st.fcache.ServedKeys()
			}
		}(i)
	}
	close(start)
	wg.Wait()
	for i, r := range results {
		if r.err != nil {
			return fmt.Errorf("[%s] env=%s worker %d of %d (%s from root %d) did not behave as it would alone: %w", c.Cfg, c.Env, i, len(c.Workers), c.Workers[i].Source, c.Workers[i].Root, r.err)
		}
	}
	// non-triviality: a shared node object served to >= 2 workers, one of which mutated
	servedBy := map[interface{}][]int{}
	for i, r := range results {
		for _, k := range r.served {
			servedBy[k] = append(servedBy[k], i)
		}
	}
	sharedAndMutated := false
	for _, ws := range servedBy {
		if len(ws) >= 2 {
			for _, i := range ws {
				if results[i].mutations > 0 {
					sharedAndMutated = true
				}
			}
		}
	}
	if c.Env != "frozen" {
		// the ARC cache cannot be instrumented without adding synchronisation; count by construction:
		// >= 2 workers loaded the same root and at least one mutated
		byRoot := map[int]int{}
		muts := 0
		for i, wk := range c.Workers {
			if wk.Source != "fresh" {
				byRoot[wk.Root%len(roots)]++
			}
			muts += results[i].mutations
		}
		for _, n := range byRoot {
			if n >= 2 && muts > 0 && len(roots[0].Model) > 0 {
				sharedAndMutated = true
			}
		}
	}
	o.NonTrivial = sharedAndMutated
	o.Labelf("env=%s", c.Env)
	o.Labelf("workers=%d", len(c.Workers))
	o.Labelf("key=%s", c.Cfg.Key)
	o.Labelf("bf=%d", c.Cfg.BF)
	return nil
}

func init() {
	run.Register(run.Prop[C11Case]{
		ID:    "C11",
		Level: "exploration",
		Rule: "case = configuration + single-threaded base history whose persists give roots + 2-8 goroutines, each owning its own tree (loaded inside the goroutine from one of the roots, a clone made beforehand, or a fresh tree) and running its own generated program of <=30 inserts/updates/deletes/lookups/iterations/persists/reloads/clones, all released by one channel close. Environment 'frozen': all base nodes are pre-loaded single-threaded, then exposed through plain maps that are never written again and are read WITHOUT locks; everything a tree writes goes to an overlay private to that tree behind its own mutex, so there is no synchronisation between different trees and any write to a shared node object is reported by the happens-before race detector whatever the schedule. Environment 'real': one mast.NewNodeCache ARC cache and one NewInMemoryStore shared by all goroutines, half of the time with identical programs (identical nodes published through the cache). Oracle: no DATA RACE report from the Go race detector (GORACE=halt_on_error=1; the case being executed is written to disk before it runs) and every goroutine's tree equals its own model at every lookup/iteration and at the end. " +
			"Non-trivial = some shared base node object was handed to >= 2 goroutines of which at least one mutated its tree (frozen: measured per cache view; real: >= 2 workers opened the same non-empty root and some worker mutated); distinct by case hash",
		Assumptions: []string{"schedules are sampled, not enumerated; detection is happens-before based (schedule-insensitive in the frozen environment, schedule-dependent in the real one)", "a race cannot be shrunk: the replay file is the whole case"},
		Gen:         genC11,
		Run:         runC11,
		WriteBefore: true,
	})
}

// holdStore is a healthy store one of whose reads can be held in flight: the first Load after arm() announces
// itself and then waits for its caller's context to end (returning that context's error) or for release().
type holdStore struct {
	inner   mast.Persist
	mu      sync.Mutex
	armed   bool
	failOne bool // the held read ends with a one-off store error instead of waiting for its context
	arrived chan struct{}
	release chan struct{}
}

var errOneOff = errors.New("harness: one-off store error on this request only")

func (h *holdStore) NodeURLPrefix() string { return h.inner.NodeURLPrefix() }
func (h *holdStore) Store(ctx context.Context, name string, b []byte) error {
	return h.inner.Store(ctx, name, b)
}
func (h *holdStore) Load(ctx context.Context, name string) ([]byte, error) {
	h.mu.Lock()
	held := h.armed
	h.armed = false
	h.mu.Unlock()
	if held {
		close(h.arrived)
		select {
		case <-ctx.Done():
			return nil, ctx.Err()
		case <-h.release:
			if h.failOne {
				return nil, errOneOff
			}
		}
	}
	return h.inner.Load(ctx, name)
}

// runC11Isolation: two trees opened from the same root over one store and one (cold) shared cache. Tree A iterates
// under a context of its own; its first read from the store is held in flight and then ends with A's own
// cancellation (or a one-off error on that request). Tree B, with a live context on the same healthy store, iterates
// at the same time and needs the same nodes: it must behave exactly as if it ran alone.
func runC11Isolation(c C11Case, o *run.Obs, w *core.World, roots []*core.SavedRoot) error {
	r := roots[len(roots)-1]
	for _, x := range roots {
		if x.Root.Height > r.Root.Height {
			r = x
		}
	}
	if r.Root.Height == 0 {
		o.Label("isolation:flat-tree(skipped)")
		return nil
	}
	inner := mast.NewInMemoryStore()
	for name, b := range w.Store.Snapshot() {
		inner.Store(core.Ctx, name, b)
	}
	hs := &holdStore{inner: inner, arrived: make(chan struct{}), release: make(chan struct{}), failOne: len(c.Workers)%2 == 0}
	cache := mast.NewNodeCache(256)
	a, err := w.Load(r, hs, cache, false)
	if err != nil {
		o.Label("aborted:base-failure")
		return nil
	}
	b, err := w.Load(r, hs, cache, false)
	if err != nil {
		o.Label("aborted:base-failure")
		return nil
	}
	hs.mu.Lock()
	hs.armed = true
	hs.mu.Unlock()
	ctxA, cancelA := context.WithCancel(context.Background())
	defer cancelA()
	doneA := make(chan error, 1)
	go func() {
		doneA <- core.Safely("Iter", func() error {
			return a.M.Iter(ctxA, func(k, v interface{}) error { return nil })
		})
	}()
	select {
	case <-hs.arrived:
	case errA := <-doneA:
		// A finished without reading from the store (everything it needed was in memory): nothing to observe
		_ = errA
		o.Label("isolation:no-store-read(skipped)")
		return nil
	}
	doneB := make(chan error, 1)
	go func() { doneB <- w.Check(b) }()
	var errB error
	finishedB := false
	select {
	case errB = <-doneB:
		finishedB = true
	case <-time.After(50 * time.Millisecond):
		// B is waiting for something other than its own reads; end A's request and see what B makes of it
	}
	if hs.failOne {
		close(hs.release)
	} else {
		cancelA()
	}
	if !finishedB {
		select {
		case errB = <-doneB:
		case <-time.After(120 * time.Second):
			return fmt.Errorf("harness: tree B did not finish within 120 s")
		}
	}
	<-doneA // A may fail (its own request ended) or succeed; either is its own business
	if hs.failOne {
		cancelA()
	} else {
		close(hs.release)
	}
	if errB != nil {
		how := "A's context was cancelled while its read was in flight"
		if hs.failOne {
			how = "one read of A ended with an error on that request only"
		}
		return fmt.Errorf("[%s] env=isolation: trees A and B opened from the same root over one healthy store and one shared cache; %s; tree B (live context, never faulted) did not behave as it would alone: %w", c.Cfg, how, errB)
	}
	// second phase, sequential: a request of tree A2 fails on its own; only afterwards a tree B2 sharing the (cold)
	// cache needs the same nodes. What A2's failure left behind must not reach B2.
	hs2 := &holdStore{inner: inner, arrived: make(chan struct{}), release: make(chan struct{}), failOne: hs.failOne}
	cache2 := mast.NewNodeCache(256)
	a2, err := w.Load(r, hs2, cache2, false)
	if err != nil {
		o.Label("aborted:base-failure")
		return nil
	}
	hs2.mu.Lock()
	hs2.armed = true
	hs2.mu.Unlock()
	ctxA2, cancelA2 := context.WithCancel(context.Background())
	defer cancelA2()
	doneA2 := make(chan error, 1)
	go func() {
		doneA2 <- core.Safely("Iter", func() error {
			return a2.M.Iter(ctxA2, func(k, v interface{}) error { return nil })
		})
	}()
	select {
	case <-hs2.arrived:
		if hs2.failOne {
			close(hs2.release)
		} else {
			cancelA2()
		}
		<-doneA2
		if !hs2.failOne {
			close(hs2.release)
		}
		b2, err := w.Load(r, hs2, cache2, false)
		if err == nil {
			err = w.Check(b2)
		}
		if err != nil {
			how := "a read of tree A ended with A's own cancellation"
			if hs2.failOne {
				how = "one read of tree A ended with an error on that request only"
			}
			return fmt.Errorf("[%s] env=isolation (sequential): %s; afterwards tree B, opened from the same root over the same healthy store and shared cache, did not behave as it would alone: %w", c.Cfg, how, err)
		}
		o.Label("isolation:sequential-phase")
	case <-doneA2:
	}
	o.NonTrivial = true
	o.Label("env=isolation")
	if hs.failOne {
		o.Label("isolation:one-off-error")
	} else {
		o.Label("isolation:context-cancelled")
	}
	return nil
}
