package checks

import (
	"fmt"

	"pgregory.net/rapid"
	"verif/harness/core"
	"verif/harness/env"
	"verif/harness/ref"
	"verif/harness/run"
)

// C07 — node diff is exactly what a replica needs to synchronise.

func genC07(t *rapid.T, tier string) PairCase {
	return genPair(t, tier, core.GenOpts{
		Caches:   []string{"none", "none", "big", "arc4"},
		Vals:     []string{core.VInt, core.VString},
		BigOneIn: 12,
	}, true)
}

type linkDiff struct {
	added, removed []interface{}
}

func diffLinks(p *pair) (linkDiff, error) {
	var ld linkDiff
	err := core.Safely("DiffLinks", func() error {
		return p.new.M.DiffLinks(core.Ctx, p.old.M, func(removed bool, link interface{}) (bool, error) {
			if removed {
				ld.removed = append(ld.removed, link)
			} else {
				ld.added = append(ld.added, link)
			}
			return true, nil
		})
	})
	return ld, err
}

func nodeSet(w *core.World, sr *core.SavedRoot) (map[string]*ref.Node, error) {
	return w.Reachable(sr.Root)
}

func runC07(c PairCase, o *run.Obs) error {
	p, ok := buildPair(c, o)
	if !ok || p.oldSR == nil || p.newSR == nil {
		o.Label("aborted:base-failure")
		return nil
	}
	w := p.w
	nOld, err1 := nodeSet(w, p.oldSR)
	nNew, err2 := nodeSet(p.wNew, p.newSR)
	if err1 != nil || err2 != nil {
		o.Label("aborted:root-not-complete(C03)")
		return nil
	}
	desc := fmt.Sprintf("[%s] mode=%s old=%s new=%s", c.Cfg, c.Mode, w.DescribeModel(p.old.Model), w.DescribeModel(p.new.Model))
	if c.Prelude > 0 {
		diffPrelude(p, c.Prelude)
		o.Label("after-an-abandoned-diff")
	}
	ld, err := diffLinks(p)
	if err != nil {
		return fmt.Errorf("%s: DiffLinks failed: %w", desc, err)
	}
	check := func(dir string, got []interface{}, mine, other map[string]*ref.Node) (map[string]bool, error) {
		seen := map[string]bool{}
		for _, l := range got {
			s, ok := l.(string)
			if !ok {
				return nil, fmt.Errorf("%s: %s link %v (%T) of a persisted version is not a node name", desc, dir, l, l)
			}
			if seen[s] {
				return nil, fmt.Errorf("%s: node %s reported as %s more than once", desc, s, dir)
			}
			seen[s] = true
			if _, ok := mine[s]; !ok {
				return nil, fmt.Errorf("%s: node %s reported as %s does not belong to that version", desc, s, dir)
			}
		}
		for name := range mine {
			if _, shared := other[name]; !shared && !seen[name] {
				return nil, fmt.Errorf("%s: node %s belongs only to the %s side but was not reported as %s (reported %d)", desc, name, map[string]string{"added": "new", "removed": "old"}[dir], dir, len(got))
			}
		}
		return seen, nil
	}
	added, err := check("added", ld.added, nNew, nOld)
	if err != nil {
		return err
	}
	if _, err := check("removed", ld.removed, nOld, nNew); err != nil {
		return err
	}
	// replica: holds the old version (+ unrelated nodes) and receives just the added nodes
	replica := env.NewRecStore("mem://replica")
	for name := range nOld {
		b, _ := w.Store.Peek(name)
		replica.Put(name, b)
	}
	replica.Put(ref.NodeName([]byte("unrelated")), []byte("unrelated"))
	for name := range added {
		b, _ := p.wNew.Store.Peek(name)
		replica.Put(name, b)
	}
	got, err := core.ReachableIn(w.Cfg, core.RootOf(p.newSR.Root).Link, replica.Peek)
	if err != nil {
		return fmt.Errorf("%s: a replica holding the old version plus the %d added nodes cannot reach the whole new version: %w", desc, len(added), err)
	}
	if len(got) != len(nNew) {
		return fmt.Errorf("%s: replica reaches %d nodes, new version has %d", desc, len(got), len(nNew))
	}
	lt, err := w.Load(p.newSR, replica, nil, false)
	if err != nil {
		return fmt.Errorf("%s: new root does not load from the replica: %w", desc, err)
	}
	if err := w.CompareContents(lt.M, p.newSR.Model); err != nil {
		return fmt.Errorf("%s: new version loaded from the replica differs: %w", desc, err)
	}
	shared, onlyOld, onlyNew := 0, 0, 0
	for n := range nOld {
		if _, ok := nNew[n]; ok {
			shared++
		} else {
			onlyOld++
		}
	}
	for n := range nNew {
		if _, ok := nOld[n]; !ok {
			onlyNew++
		}
	}
	o.NonTrivial = (shared > 0 && onlyOld > 0 && onlyNew > 0) || (p.oldSR.Root.Height != p.newSR.Root.Height && onlyNew > 0)
	labelCfg(o, c.Cfg)
	o.Labelf("mode=%s", c.Mode)
	if p.oldSR.Root.Height != p.newSR.Root.Height {
		o.Label("heights-differ")
	}
	if len(nOld) == 0 {
		o.Label("old-empty")
	}
	if len(nNew) == 0 {
		o.Label("new-empty")
	}
	if shared > 0 {
		o.Label("shares-nodes")
	}
	return nil
}

func init() {
	run.Register(run.Prop[PairCase]{
		ID:    "C07",
		Level: "exploration",
		Rule: "case = ordered pair of persisted versions as in C06 (new derived from old by clone/reload + ops, unrelated histories over the same pool, the same version; either side possibly empty; different heights; each side opened through the shared cache, no cache or a cache of its own). Oracle, exactly as stated: with N_old/N_new the node sets reachable in the recording store, N_new \\ N_old subset of added subset of N_new, N_old \\ N_new subset of removed subset of N_old, every name at most once per direction, links are names; then a replica store seeded with N_old + an unrelated node + just the added nodes must contain every node of the new version and load it with the model's contents. " +
			"Non-trivial = (shared nodes AND nodes only in old AND nodes only in new) OR (different heights with new-only nodes); distinct by case hash",
		Assumptions: []string{"both versions persisted and complete (a root whose nodes are missing is C03's subject and aborts the case)"},
		Gen:         genC07,
		Run:         runC07,
		Enumerate:   enumWidePairs,
	})
}
