package checks

import (
	"errors"

	"pgregory.net/rapid"
	"verif/harness/core"
	"verif/harness/ref"
	"verif/harness/run"
)

// PairCase describes an ordered pair (old, new) of trees of one configuration.
type PairCase struct {
	Cfg      core.Config `json:"cfg"`
	Base     []core.Op   `json:"base"`            // history of the old tree
	Mode     string      `json:"mode"`            // clone | reload | unrelated | same
	Delta    []core.Op   `json:"delta,omitempty"` // ops deriving new from old, or the independent history of new
	OldRes   string      `json:"old_res"`         // memory | persisted | reloaded
	NewRes   string      `json:"new_res"`
	OldNil   bool        `json:"old_nil,omitempty"`   // pass a nil old tree (C06)
	StopAt   int         `json:"stop_at"`             // callback stops at this index (-1 never)
	StopErr  bool        `json:"stop_err,omitempty"`  // ... by returning an error instead of false
	StopKeep bool        `json:"stop_keep,omitempty"` // the keepGoing flag returned together with the error
	// StopErrKind: which error the callback fails with: 0 an error of the harness, 1 mast.ErrNoMoreDiffs itself,
	// 2 an error wrapping mast.ErrNoMoreDiffs (e.g. from a second diff cursor driven inside the callback), 3 mast.ErrIterDone
	StopErrKind int `json:"stop_err_kind,omitempty"`
	// Prelude > 0: before the diff under test, another diff is started and abandoned part-way
	// (1: old.DiffLinks(new) stopped by its callback, 2: old.DiffIter(new) failed by its callback,
	// 3: new.DiffLinks(old) stopped, 4: a DiffCursor on (old,new) read once and dropped)
	Prelude int `json:"prelude,omitempty"`
}

var pairBaseWeights = core.OpWeights{
	core.OpInsert: 20, core.OpInsertNew: 30, core.OpDelete: 20, core.OpUpdate: 4, core.OpPersist: 3, core.OpReload: 2, core.OpDrain: 1,
}
var pairDeltaWeights = core.OpWeights{
	core.OpInsert: 10, core.OpInsertNew: 20, core.OpDelete: 20, core.OpUpdate: 12, core.OpInsertSame: 2, core.OpPersist: 2, core.OpDrain: 1,
}

func genPair(t *rapid.T, tier string, o core.GenOpts, persistedOnly bool) PairCase {
	c := PairCase{Cfg: core.GenConfig(t, tier, o)}
	pool := len(c.Cfg.Pool())
	c.Base = append(core.GenFillCfg(t, c.Cfg, pool), core.GenProgram(t, core.WithBulk(pairBaseWeights, c.Cfg), 25, 1)...)
	c.Mode = rapid.SampledFrom([]string{"clone", "reload", "reload", "unrelated", "unrelated", "otherstore", "same"}).Draw(t, "mode")
	switch c.Mode {
	case "otherstore":
		c.Delta = append(core.GenFillCfg(t, c.Cfg, pool), core.GenProgram(t, core.WithBulk(pairBaseWeights, c.Cfg), 25, 1)...)
	case "clone", "reload":
		c.Delta = core.GenProgram(t, pairDeltaWeights, 12, 1)
		if rapid.IntRange(0, 5).Draw(t, "nodelta") == 0 {
			c.Delta = nil
		}
	case "unrelated":
		c.Delta = append(core.GenFillCfg(t, c.Cfg, pool), core.GenProgram(t, core.WithBulk(pairBaseWeights, c.Cfg), 25, 1)...)
	}
	// residency of each side: "memory" (never persisted), "persisted" (the handle that wrote it), "reloaded" (opened from its root through
	// the world's cache), "reloaded-nocache" / "reloaded-newcache" (opened through no cache / a cache of its own, so the two handles of a
	// pair need not share one), "clone2" (an unsaved clone of a clone)
	res := []string{"memory", "memory", "persisted", "persisted", "reloaded", "reloaded", "reloaded-nocache", "reloaded-newcache", "clone2"}
	if persistedOnly {
		res = []string{"reloaded", "reloaded", "reloaded", "persisted", "persisted", "reloaded-nocache", "reloaded-newcache"}
	}
	c.OldRes = rapid.SampledFrom(res).Draw(t, "oldres")
	c.NewRes = rapid.SampledFrom(res).Draw(t, "newres")
	c.StopAt = -1
	c.Prelude = rapid.SampledFrom([]int{0, 0, 0, 1, 2, 3, 4}).Draw(t, "prelude")
	return c
}

// diffPrelude runs and abandons a diff; whatever it returns is not this check's subject.
func diffPrelude(p *pair, kind int) {
	stop := func(removed bool, link interface{}) (bool, error) { return false, nil }
	_ = core.Safely("prelude", func() error {
		switch kind {
		case 1:
			return p.old.M.DiffLinks(core.Ctx, p.new.M, stop)
		case 2:
			return p.old.M.DiffIter(core.Ctx, p.new.M, func(a, r bool, k, av, rv interface{}) (bool, error) { return true, errStop })
		case 3:
			return p.new.M.DiffLinks(core.Ctx, p.old.M, stop)
		case 4:
			dc, err := p.new.M.StartDiff(core.Ctx, p.old.M)
			if err == nil {
				_, _ = dc.NextEntry(core.Ctx)
			}
		}
		return nil
	})
}

type pair struct {
	wNew     *core.World // the world (store, cache) of the new tree; == w unless mode is "otherstore"
	w        *core.World
	old, new *core.Tree
	oldSR    *core.SavedRoot // when persisted
	newSR    *core.SavedRoot
}

// buildPair constructs the two trees; ok=false when an operation itself failed (base failure).
func buildPair(c PairCase, o *run.Obs) (*pair, bool) {
	w := core.NewWorld(c.Cfg)
	m, err := core.NewMachine(w, 1)
	if err != nil {
		return nil, false
	}
	runOps := func(m *core.Machine, ops []core.Op) bool {
		for _, op := range ops {
			op.Slot = 0
			if err := m.Step(op); err != nil && !errors.Is(err, core.ErrSkipped) {
				return false
			}
		}
		return true
	}
	if !runOps(m, c.Base) {
		return nil, false
	}
	p := &pair{w: w, wNew: w, old: m.Slots[0]}
	switch c.Mode {
	case "same":
		cl, err := w.Clone(p.old)
		if err != nil {
			return nil, false
		}
		p.new = cl
	case "clone":
		cl, err := w.Clone(p.old)
		if err != nil {
			return nil, false
		}
		m2 := &core.Machine{W: w, Slots: []*core.Tree{cl}}
		if !runOps(core.AdoptMachine(m2), c.Delta) {
			return nil, false
		}
		p.new = m2.Slots[0]
	case "reload":
		sr, err := w.Persist(p.old)
		if err != nil {
			return nil, false
		}
		lt, err := w.Load(sr, nil, w.Cache, false)
		if err != nil {
			return nil, false
		}
		m2 := &core.Machine{W: w, Slots: []*core.Tree{lt}}
		if !runOps(core.AdoptMachine(m2), c.Delta) {
			return nil, false
		}
		p.new = m2.Slots[0]
	case "otherstore": // unrelated history in a store and cache of its own (e.g. a replica)
		p.wNew = core.NewWorld(c.Cfg)
		p.wNew.Store.Prefix = "mem://other-store"
		m2, err := core.NewMachine(p.wNew, 1)
		if err != nil {
			return nil, false
		}
		if !runOps(m2, c.Delta) {
			return nil, false
		}
		p.new = m2.Slots[0]
	default: // unrelated
		m2, err := core.NewMachine(w, 1)
		if err != nil {
			return nil, false
		}
		if !runOps(m2, c.Delta) {
			return nil, false
		}
		p.new = m2.Slots[0]
	}
	settle := func(w *core.World, t *core.Tree, res string) (*core.Tree, *core.SavedRoot, bool) {
		switch res {
		case "clone2":
			c1, err := w.Clone(t)
			if err != nil {
				return nil, nil, false
			}
			c2, err := w.Clone(c1)
			if err != nil {
				return nil, nil, false
			}
			return c2, nil, true
		case "persisted", "reloaded", "reloaded-nocache", "reloaded-newcache":
			sr, err := w.Persist(t)
			if err != nil {
				return nil, nil, false
			}
			if res != "persisted" {
				cache := w.Cache
				switch res {
				case "reloaded-nocache":
					cache = nil
				case "reloaded-newcache":
					cache, _ = core.MakeCache("big")
				}
				lt, err := w.Load(sr, nil, cache, false)
				if err != nil {
					return nil, nil, false
				}
				return lt, sr, true
			}
			return t, sr, true
		}
		return t, nil, true
	}
	var ok bool
	if p.old, p.oldSR, ok = settle(w, p.old, c.OldRes); !ok {
		return nil, false
	}
	if p.new, p.newSR, ok = settle(p.wNew, p.new, c.NewRes); !ok {
		return nil, false
	}
	return p, true
}

// enumWidePairs: versions whose top node holds several hundred keys (more child slots than fit in a byte), differing in a few
// entries that sit below low and high link indices.
func enumWidePairs(tier string, shard, nshards int, yield func(PairCase) bool) (bool, string) {
	i := 0
	for _, format := range core.Formats {
		for _, n := range []int{130, 260, 300} { // keys of layer 1 in the top node
			for _, mode := range []string{"clone", "reload"} {
				i++
				if i%nshards != shard {
					continue
				}
				layers := make([]uint8, 2*n+1)
				for k := range layers {
					layers[k] = uint8(k % 2) // a leaf with one key between any two keys of the top node
				}
				cfg := core.Config{BF: 16, Format: format, Key: core.KLK, Val: core.VInt, Cache: "none", Marshaler: "json", LKLayers: layers}
				var base []core.Op
				for k := range layers {
					base = append(base, core.Op{Kind: core.OpInsert, K: k, V: k % 4})
				}
				// the delta touches leaves below link indices 1, n-3 and n-1 (update, delete, update) and adds nothing else
				delta := []core.Op{{Kind: core.OpInsert, K: 2, V: 5}, {Kind: core.OpInsert, K: 2 * (n - 3), V: 5}, {Kind: core.OpInsert, K: 2 * (n - 1), V: 5}}
				if n%2 == 0 {
					delta = []core.Op{{Kind: core.OpInsert, K: 2 * (n - 2), V: 5}}
				}
				pc := PairCase{Cfg: cfg, Base: base, Mode: mode, Delta: delta, OldRes: "reloaded", NewRes: "reloaded", StopAt: -1}
				if !yield(pc) {
					return false, ""
				}
			}
		}
	}
	// a single node far wider than the branch factor suggests: 100 / 140 keys of layer 0 at branch factor 2 and 3
	for _, bf := range []uint{2, 3} {
		for _, n := range []int{100, 140} {
			i++
			if i%nshards != shard {
				continue
			}
			layers := make([]uint8, n+20)
			cfg := core.Config{BF: bf, Format: ref.FormatBinary, Key: core.KLK, Val: core.VInt, Cache: "none", Marshaler: "json", LKLayers: layers}
			var base []core.Op
			for k := 0; k < n; k++ {
				base = append(base, core.Op{Kind: core.OpInsert, K: k, V: k % 4})
			}
			delta := []core.Op{{Kind: core.OpInsert, K: 1, V: 5}, {Kind: core.OpDelete, K: n - 2}, {Kind: core.OpInsert, K: n + 3, V: 1}}
			mode := []string{"clone", "unrelated"}[(n/20)%2]
			if mode == "unrelated" {
				delta = append(append([]core.Op{}, base[n/2:]...), delta[0], delta[2])
			}
			if !yield(PairCase{Cfg: cfg, Base: base, Mode: mode, Delta: delta, OldRes: []string{"memory", "reloaded"}[n/100%2], NewRes: "reloaded", StopAt: -1}) {
				return false, ""
			}
		}
	}
	return false, "single nodes of 100 / 140 keys at branch factor 2 and 3; wide top nodes: 130 / 260 / 300 keys of layer 1 with a one-key leaf in every child slot (bf 16), versions differing in leaves below low and high link indices"
}
