package checks

import (
	"errors"
	"fmt"
	"strings"

	"github.com/jrhy/mast"
	"pgregory.net/rapid"
	"verif/harness/core"
	"verif/harness/ref"
	"verif/harness/run"
)

// C10 — cursor and seek navigation agree with the sorted key sequence.

type C10Walk struct {
	Start string `json:"start"` // min | max | ceil
	Probe int    `json:"probe,omitempty"`
	Steps string `json:"steps"` // word over F (Forward) and B (Backward)
}

// Nested (C10Seek): while the callback of this SeekIter is at its Nested-1-th entry it runs another complete
// SeekIter (probe NestedProbe) on the same tree; both must be right.
type C10Seek struct {
	Probe  int `json:"probe"`
	StopAt int `json:"stop_at"` // callback signals ErrIterDone at this index; -1 = never
	// Nested > 0: when the callback receives its Nested-th entry it first runs another complete SeekIter
	// (probe NestedProbe) on the same tree; both iterations must be right
	Nested      int `json:"nested,omitempty"`
	NestedProbe int `json:"nested_probe,omitempty"`
}

type C10Case struct {
	Cfg       core.Config `json:"cfg"`
	Fill      []core.Op   `json:"fill,omitempty"`
	Prog      []core.Op   `json:"prog,omitempty"`
	Residency string      `json:"residency"` // memory | persisted | reloaded
	Walks     []C10Walk   `json:"walks"`
	Seeks     []C10Seek   `json:"seeks"`
}

var c10Weights = core.OpWeights{
	core.OpInsert: 20, core.OpInsertNew: 30, core.OpDelete: 25, core.OpUpdate: 3,
	core.OpPersist: 4, core.OpReload: 3, core.OpClone: 1, core.OpDrain: 1,
}

func genC10(t *rapid.T, tier string) C10Case {
	c := C10Case{Cfg: core.GenConfig(t, tier, core.GenOpts{
		Vals:     []string{core.VInt, core.VInt, core.VString, core.VString, core.VPtr, core.VTags, core.VNil},
		Caches:   []string{"none", "none", "big", "arc4"},
		BigOneIn: 20,
	})}
	pool := len(c.Cfg.Pool())
	c.Fill = core.GenFillCfg(t, c.Cfg, pool)
	maxOps := 30
	if tier == "thorough" {
		maxOps = 60
	}
	c.Prog = core.GenProgram(t, core.WithBulk(c10Weights, c.Cfg), maxOps, 1)
	c.Residency = rapid.SampledFrom([]string{"memory", "persisted", "reloaded"}).Draw(t, "residency")
	nw := rapid.IntRange(1, 5).Draw(t, "nwalks")
	for i := 0; i < nw; i++ {
		w := C10Walk{Start: rapid.SampledFrom([]string{"min", "max", "ceil", "ceil"}).Draw(t, "start")}
		if w.Start == "ceil" {
			w.Probe = rapid.IntRange(0, pool-1).Draw(t, "probe")
		}
		style := rapid.IntRange(0, 3).Draw(t, "style")
		maxSteps := 2*pool + 3
		if c.Cfg.IsBig() && style >= 2 {
			maxSteps = 160 // every step of a mixed walk is a generated choice
		}
		n := rapid.IntRange(0, maxSteps).Draw(t, "nsteps")
		b := make([]byte, n)
		for j := range b {
			switch style {
			case 0:
				b[j] = 'F'
			case 1:
				b[j] = 'B'
			default:
				b[j] = rapid.SampledFrom([]byte{'F', 'B'}).Draw(t, "step")
			}
		}
		w.Steps = string(b)
		c.Walks = append(c.Walks, w)
	}
	ns := rapid.IntRange(1, 4).Draw(t, "nseeks")
	for i := 0; i < ns; i++ {
		sk := C10Seek{Probe: rapid.IntRange(0, pool-1).Draw(t, "seekprobe"), StopAt: rapid.IntRange(-1, 6).Draw(t, "stopat")}
		if rapid.IntRange(0, 3).Draw(t, "nested") == 0 {
			sk.Nested = rapid.IntRange(1, 5).Draw(t, "nestedat")
			sk.NestedProbe = rapid.IntRange(0, pool-1).Draw(t, "nestedprobe")
		}
		c.Seeks = append(c.Seeks, sk)
	}
	return c
}

func runC10(c C10Case, o *run.Obs) error {
	w := core.NewWorld(c.Cfg)
	m, err := core.NewMachine(w, 1)
	if err != nil {
		o.Label("aborted:base-failure")
		return nil
	}
	for _, ops := range [][]core.Op{c.Fill, c.Prog} {
		for _, op := range ops {
			if err := m.Step(op); err != nil && !errors.Is(err, core.ErrSkipped) {
				o.Label("aborted:base-failure")
				return nil
			}
		}
	}
	t := m.Slots[0]
	switch c.Residency {
	case "persisted", "reloaded":
		sr, err := w.Persist(t)
		if err != nil {
			o.Label("aborted:base-failure")
			return nil
		}
		if c.Residency == "reloaded" {
			if t, err = w.Load(sr, nil, w.Cache, false); err != nil {
				o.Label("aborted:base-failure")
				return nil
			}
		}
	}
	keys := t.Model.Keys() // ascending pool indices == ascending key order
	size := len(keys)
	lowerBound := func(probe int) int {
		for i, k := range keys {
			if k >= probe {
				return i
			}
		}
		return size
	}
	expectAtLazy := func(cur *mast.Cursor, idx int, whatf func() string) error {
		what := ""
		var k, v interface{}
		var ok bool
		if err := core.Safely("Cursor.Get", func() error { k, v, ok = cur.Get(); return nil }); err != nil {
			return fmt.Errorf("%s: %w", whatf(), err)
		}
		if idx < 0 || idx >= size {
			if ok {
				what = whatf()
				return fmt.Errorf("%s: cursor reports entry %v but the position is off the end (index %d of %d keys)", what, k, idx, size)
			}
			return nil
		}
		if !ok {
			what = whatf()
			return fmt.Errorf("%s: cursor reports no entry, expected key %v (index %d of %d)", what, w.Pool[keys[idx]], idx, size)
		}
		if w.Cfg.RefCompare(k, w.Pool[keys[idx]]) != 0 {
			what = whatf()
			return fmt.Errorf("%s: cursor is at key %v, expected %v (index %d of %d; keys %s)", what, k, w.Pool[keys[idx]], idx, size, w.DescribeModel(t.Model))
		}
		if !core.EqualVal(v, w.Cfg.MakeVal(t.Model[keys[idx]])) {
			what = whatf()
			return fmt.Errorf("%s: cursor at key %v reports value %#v, expected %#v", what, k, v, w.Cfg.MakeVal(t.Model[keys[idx]]))
		}
		return nil
	}
	expectAt := func(cur *mast.Cursor, idx int, what string) error {
		return expectAtLazy(cur, idx, func() string { return what })
	}
	height := t.M.Height()
	interesting := false
	for wi, wk := range c.Walks {
		var cur *mast.Cursor
		if err := core.Safely("Cursor", func() error { var e error; cur, e = t.M.Cursor(core.Ctx); return e }); err != nil {
			return fmt.Errorf("[%s] walk %d: opening a cursor failed: %w", c.Cfg, wi, err)
		}
		idx := 0
		var serr error
		what := ""
		switch wk.Start {
		case "min":
			what = "Min"
			serr = core.Safely("Cursor.Min", func() error { return cur.Min(core.Ctx) })
			idx = 0
		case "max":
			what = "Max"
			serr = core.Safely("Cursor.Max", func() error { return cur.Max(core.Ctx) })
			idx = size - 1
		case "ceil":
			probe := wk.Probe % len(w.Pool)
			what = fmt.Sprintf("Ceil(%v)", w.Pool[probe])
			serr = core.Safely("Cursor.Ceil", func() error { return cur.Ceil(core.Ctx, w.Pool[probe]) })
			idx = lowerBound(probe)
			if _, present := t.Model[probe]; !present && w.Cfg.RefLayer(w.Pool[probe]) >= 1 && height >= 2 {
				interesting = true
			}
		}
		if serr != nil && size == 0 && !strings.Contains(serr.Error(), "panicked") {
			o.Label("empty-tree:placement-returned-an-error(not-judged)")
			continue
		}
		if serr != nil {
			return fmt.Errorf("[%s] walk %d: %s on a tree of %d entries failed: %w", c.Cfg, wi, what, size, serr)
		}
		if err := expectAt(cur, idx, fmt.Sprintf("[%s] walk %d (%s, tree %s, height %d) after %s", c.Cfg, wi, c.Residency, w.DescribeModel(t.Model), height, what)); err != nil {
			return err
		}
		turns := 0
		for si := 0; si < len(wk.Steps); si++ {
			if size == 0 {
				// an empty tree: every call must return without panicking and there is never an entry
				idx = -1 - si // stays off the end whatever the step does
			} else if idx < 0 || idx >= size {
				break // stepped off an end: later behaviour is not specified
			}
			st := wk.Steps[si]
			if si > 0 && wk.Steps[si-1] != st {
				turns++
			}
			var err error
			if st == 'F' {
				err = core.Safely("Cursor.Forward", func() error { return cur.Forward(core.Ctx) })
				idx++
			} else {
				err = core.Safely("Cursor.Backward", func() error { return cur.Backward(core.Ctx) })
				idx--
			}
			desc := func() string {
				return fmt.Sprintf("[%s] walk %d (%s, tree %s, height %d) %s then steps %q", c.Cfg, wi, c.Residency, w.DescribeModel(t.Model), height, what, wk.Steps[:si+1])
			}
			if err != nil && size == 0 && !strings.Contains(err.Error(), "panicked") {
				// the statement promises that no call panics on an empty tree; whether a move on it may return an error
				// is not stated, so that is recorded, not judged
				o.Label("empty-tree:move-returned-an-error(not-judged)")
				err = nil
			}
			if err != nil {
				return fmt.Errorf("%s: step failed: %w", desc(), err)
			}
			if err := expectAtLazy(cur, idx, desc); err != nil {
				return err
			}
		}
		if turns >= 1 && height >= 2 && len(wk.Steps) >= 3 {
			interesting = true
		}
	}
	for si, sk := range c.Seeks {
		probe := sk.Probe % len(w.Pool)
		_, present := t.Model[probe]
		if !present && w.Cfg.RefLayer(w.Pool[probe]) >= 1 && height >= 2 {
			interesting = true
		}
		var got []core.KV
		var nestedErr error
		n := 0
		err := core.Safely("SeekIter", func() error {
			return t.M.SeekIter(core.Ctx, w.Pool[probe], func(k, v interface{}) error {
				got = append(got, core.KV{K: k, V: v})
				if sk.Nested > 0 && len(got) == sk.Nested {
					// a second, complete iteration from inside the callback of the first
					ip := sk.NestedProbe % len(w.Pool)
					var inner []core.KV
					if e := t.M.SeekIter(core.Ctx, w.Pool[ip], func(k2, v2 interface{}) error {
						inner = append(inner, core.KV{K: k2, V: v2})
						return nil
					}); e != nil {
						nestedErr = fmt.Errorf("SeekIter(%v) run from inside the callback failed: %w", w.Pool[ip], e)
					}
					wantIn := keys[lowerBound(ip):]
					if nestedErr == nil && len(inner) != len(wantIn) {
						nestedErr = fmt.Errorf("SeekIter(%v) run from inside the callback yielded %d entries %v, expected %d", w.Pool[ip], len(inner), kvKeysOf(inner), len(wantIn))
					}
					for i := 0; nestedErr == nil && i < len(wantIn); i++ {
						if w.Cfg.RefCompare(inner[i].K, w.Pool[wantIn[i]]) != 0 {
							nestedErr = fmt.Errorf("SeekIter(%v) run from inside the callback: entry %d is %v, expected %v", w.Pool[ip], i, inner[i].K, w.Pool[wantIn[i]])
						}
					}
				}
				if sk.StopAt >= 0 && n == sk.StopAt {
					return mast.ErrIterDone
				}
				n++
				return nil
			})
		})
		desc := fmt.Sprintf("[%s] seek %d (%s, tree %s, height %d): SeekIter(%v) stop_at=%d", c.Cfg, si, c.Residency, w.DescribeModel(t.Model), height, w.Pool[probe], sk.StopAt)
		if err != nil {
			return fmt.Errorf("%s failed: %w", desc, err)
		}
		if nestedErr != nil {
			return fmt.Errorf("%s, at its entry %d: %w", desc, sk.Nested, nestedErr)
		}
		if sk.Nested > 0 {
			o.Label("nested-seek")
		}
		want := keys[lowerBound(probe):]
		if sk.StopAt >= 0 && len(want) > sk.StopAt+1 {
			want = want[:sk.StopAt+1]
		}
		if len(got) != len(want) {
			return fmt.Errorf("%s yielded %d entries %v, expected %d", desc, len(got), kvKeysOf(got), len(want))
		}
		for i, ki := range want {
			if w.Cfg.RefCompare(got[i].K, w.Pool[ki]) != 0 || !core.EqualVal(got[i].V, w.Cfg.MakeVal(t.Model[ki])) {
				return fmt.Errorf("%s: entry %d is %v=%v, expected %v (yielded %v)", desc, i, got[i].K, got[i].V, w.Pool[ki], kvKeysOf(got))
			}
		}
	}
	o.NonTrivial = interesting
	labelCfg(o, c.Cfg)
	o.Labelf("height=%d", height)
	o.Labelf("residency=%s", c.Residency)
	if size == 0 {
		o.Label("empty-tree")
	}
	return nil
}

func kvKeysOf(kvs []core.KV) []interface{} {
	out := make([]interface{}, len(kvs))
	for i, kv := range kvs {
		out[i] = kv.K
	}
	return out
}

// enumC10Giant: an eighteen-level tree (2^17+8 consecutive keys at branch factor 2), iterated from its
// first key, walked forward over its whole length and backward from its maximum.
func enumC10Giant(tier string, shard, nshards int, yield func(C10Case) bool) (bool, string) {
	const n = 1<<17 + 8
	for i, res := range []string{"memory", "reloaded"} {
		if i%nshards != shard%2 || shard >= 2 {
			continue
		}
		cfg := core.Config{BF: 2, Format: ref.FormatBinary, Key: core.KUint64, Val: core.VInt, Cache: "none", Marshaler: "json", Big: n}
		fwd := make([]byte, n+2)
		bwd := make([]byte, 3000)
		for j := range fwd {
			fwd[j] = 'F'
		}
		for j := range bwd {
			bwd[j] = 'B'
		}
		c := C10Case{Cfg: cfg, Fill: []core.Op{{Kind: core.OpBulkIns, K: 0, V: 0, N: n}}, Residency: res,
			Walks: []C10Walk{{Start: "min", Steps: string(fwd)}, {Start: "max", Steps: string(bwd)}, {Start: "ceil", Probe: n / 2, Steps: string(bwd[:500]) + string(fwd[:1500])}},
			Seeks: []C10Seek{{Probe: 0, StopAt: -1}, {Probe: n - 5, StopAt: -1}, {Probe: 1 << 16, StopAt: 3}}}
		if !yield(c) {
			return false, ""
		}
	}
	return false, "an eighteen-level tree of 131080 keys (bf 2): full SeekIter, a forward walk over every key, backward and mixed walks"
}

func init() {
	run.Register(run.Prop[C10Case]{
		ID:    "C10",
		Level: "exploration",
		Rule: "case = configuration + history building a tree (fill of up to the whole pool, then <=30/60 inserts/deletes/persists/reloads/drains) + residency (in memory / persisted in place / reloaded) + 1-5 walks (start at Min, Max or Ceil(probe) with probes of every layer, present or absent, then a word over {Forward,Backward} of length <= 2*pool+3, unidirectional or mixed) + 1-4 SeekIter calls (probe, optional ErrIterDone at index 0-6). Oracle: an index into the sorted model keys; Cursor.Get must report exactly the entry at that index or 'no entry' when it leaves [0,size); a walk ends at the first off-end position. SeekIter must yield exactly the entries >= probe, ascending, once each, cut at the stop index, without error. " +
			"Non-trivial = height >= 2 AND (a walk of >= 3 steps that changes direction, OR a Ceil/SeekIter with an absent probe of layer >= 1); distinct by case hash",
		Assumptions: []string{"Ceil is only called on a fresh cursor (the documented/used pattern)", "behaviour after stepping off either end is unspecified and not asserted"},
		Gen:         genC10,
		Run:         runC10,
		Enumerate:   enumC10Giant,
	})
}
