package checks

import (
	"encoding/base64"
	"encoding/json"
	"errors"
	"fmt"
	"os"
	"path/filepath"
	"testing"

	"github.com/jrhy/mast"
	"pgregory.net/rapid"
	"verif/harness/core"
	"verif/harness/ref"
	"verif/harness/run"
)

// C19 — loading rejects a root that does not match the configuration.

type C19Case struct {
	Cfg     core.Config `json:"cfg"`
	Base    []core.Op   `json:"base"`
	Perturb string      `json:"perturb"`
	A       int         `json:"a,omitempty"`
	B       int         `json:"b,omitempty"`
	Bytes   string      `json:"bytes,omitempty"` // base64, for random-bytes
	Str     string      `json:"str,omitempty"`
}

var c19Perturbs = []string{
	"none", "format-unknown", "format-swap", "missing-top", "truncate", "truncate", "bitflip", "bitflip", "random-bytes",
	"count-drop-value", "count-add-key", "count-add-link", "count-drop-link", "count-huge",
	"swap-keys", "dup-key", "reverse-compare", "zero-compare", "raise-height", "raise-height", "change-bf", "corrupt-key",
	"empty-link", "local-swap-compare", "local-swap-compare",
}

func genC19(t *rapid.T, tier string) C19Case {
	c := C19Case{Cfg: core.GenConfig(t, tier, core.GenOpts{
		Caches: []string{"none", "none", "big"}, Marshalers: []string{"json"},
		Vals:       []string{core.VInt, core.VString, core.VBytes, core.VLong},
		BigOneIn:   12,
		NoReversed: true, // the perturbed comparators of this check are built from the default order
	})}
	pool := len(c.Cfg.Pool())
	c.Base = append(core.GenFillCfg(t, c.Cfg, pool), core.GenProgram(t, core.WithBulk(pairBaseWeights, c.Cfg), 10, 1)...)
	c.Perturb = rapid.SampledFrom(c19Perturbs).Draw(t, "perturb")
	c.A = rapid.IntRange(0, 4000).Draw(t, "a")
	c.B = rapid.IntRange(0, 4000).Draw(t, "b")
	switch c.Perturb {
	case "random-bytes":
		c.Bytes = base64.StdEncoding.EncodeToString(rapid.SliceOfN(rapid.Byte(), 0, 60).Draw(t, "bytes"))
	case "format-unknown":
		c.Str = rapid.SampledFrom([]string{"v2", "V1.1.5BINARY", "v1.1.5binary ", "json", "v1marshaller", "binary", "\x00"}).Draw(t, "fmt")
	}
	return c
}

// classification of (root, top node bytes, loader configuration) by the property's list
type c19Verdict struct {
	bad bool
	why string
}

func classifyRoot(cfg core.Config, root mast.Root, load func(string) ([]byte, bool), cmp func(a, b interface{}) (int, error)) c19Verdict {
	switch root.NodeFormat {
	case "", ref.FormatV1, ref.FormatBinary:
	default:
		return c19Verdict{true, "unknown node format " + root.NodeFormat}
	}
	if root.Link == nil {
		return c19Verdict{}
	}
	b, ok := load(*root.Link)
	if !ok {
		return c19Verdict{true, "top node missing"}
	}
	var keys, vals [][]byte
	var nlinks int
	if root.NodeFormat == ref.FormatBinary {
		raw, err := ref.ParseBinary(b)
		if err != nil {
			return c19Verdict{true, "top node undecodable: " + err.Error()}
		}
		keys, vals, nlinks = raw.Keys, raw.Values, len(raw.Links)
	} else {
		var raw struct {
			Key   []json.RawMessage
			Value []json.RawMessage
			Link  []*string
		}
		if err := json.Unmarshal(b, &raw); err != nil {
			return c19Verdict{true, "top node undecodable: " + err.Error()}
		}
		for i := range raw.Key {
			keys = append(keys, raw.Key[i])
		}
		for i := range raw.Value {
			vals = append(vals, raw.Value[i])
		}
		nlinks = len(raw.Link)
	}
	if len(keys) != len(vals) {
		return c19Verdict{true, fmt.Sprintf("mismatched counts: %d keys, %d values", len(keys), len(vals))}
	}
	if nlinks != 0 && nlinks != len(keys)+1 {
		return c19Verdict{true, fmt.Sprintf("mismatched counts: %d keys, %d links", len(keys), nlinks)}
	}
	if root.NodeFormat == ref.FormatBinary {
		// the binary format writes a nil element as a zero-length body and reads it back as nil
		// without calling the unmarshaler: such nodes are not "undecodable" by the format's own
		// convention, so they are left unjudged
		for i := range keys {
			if len(keys[i]) == 0 || len(vals[i]) == 0 {
				return c19Verdict{}
			}
		}
	}
	dk := make([]interface{}, len(keys))
	for i, kb := range keys {
		k, err := cfg.UnmarshalKey(kb)
		if err != nil {
			return c19Verdict{true, "top node undecodable: key: " + err.Error()}
		}
		dk[i] = k
	}
	for i := 1; i < len(dk); i++ {
		c, err := cmp(dk[i-1], dk[i])
		if err != nil || c >= 0 {
			return c19Verdict{true, fmt.Sprintf("keys %v, %v not strictly ascending under the configured order", dk[i-1], dk[i])}
		}
	}
	if root.BranchFactor >= 2 {
		for _, k := range dk {
			l, err := ref.Layer(k, root.BranchFactor, cfg.MarshalElem)
			if err == nil && l < root.Height {
				return c19Verdict{true, fmt.Sprintf("key %v has layer %d below the recorded height %d at branch factor %d", k, l, root.Height, root.BranchFactor)}
			}
		}
	}
	return c19Verdict{}
}

// laxBinary encodes lists literally (counts may be inconsistent).
func laxBinary(keys, vals, links [][]byte, hugeCount uint64) []byte {
	var buf []byte
	put := func(v uint64) {
		for v >= 0x80 {
			buf = append(buf, byte(v)|0x80)
			v >>= 7
		}
		buf = append(buf, byte(v))
	}
	list := func(items [][]byte, override uint64) {
		if override > 0 {
			put(override)
		} else {
			put(uint64(len(items)))
		}
		for _, it := range items {
			put(uint64(len(it)))
			buf = append(buf, it...)
		}
	}
	list(keys, hugeCount)
	list(vals, 0)
	list(links, 0)
	return buf
}

func laxV1(keys, vals [][]byte, links []string) []byte {
	s := `{"Key":[`
	for i, k := range keys {
		if i > 0 {
			s += ","
		}
		s += string(k)
	}
	s += `],"Value":[`
	for i, v := range vals {
		if i > 0 {
			s += ","
		}
		s += string(v)
	}
	s += `]`
	if len(links) > 0 {
		s += `,"Link":[`
		for i, l := range links {
			if i > 0 {
				s += ","
			}
			if l == "" {
				s += "null"
			} else {
				q, _ := json.Marshal(l)
				s += string(q)
			}
		}
		s += `]`
	}
	return []byte(s + "}")
}

func runC19(c C19Case, o *run.Obs) error {
	w := core.NewWorld(c.Cfg)
	m, err := core.NewMachine(w, 1)
	if err != nil {
		o.Label("aborted:base-failure")
		return nil
	}
	for _, op := range c.Base {
		op.Slot = 0
		if err := m.Step(op); err != nil && !errors.Is(err, core.ErrSkipped) {
			o.Label("aborted:base-failure")
			return nil
		}
	}
	sr, err := w.Persist(m.Slots[0])
	if err != nil {
		o.Label("aborted:base-failure")
		return nil
	}
	root := sr.Root
	defCmp := mast.DefaultKeyCompare(json.Marshal)
	cmp := defCmp
	customCmp := false
	var top *ref.Node
	var topBytes []byte
	if root.Link != nil {
		topBytes, _ = w.Store.Peek(*root.Link)
		top, _ = w.Cfg.DecodeNode(topBytes)
	}
	replaceTop := func(b []byte) {
		name := ref.NodeName(b)
		w.Store.Put(name, b)
		root.Link = &name
	}
	craft := func(f func(keys, vals [][]byte, links []string) ([][]byte, [][]byte, []string, uint64)) bool {
		if top == nil {
			return false
		}
		links := append([]string(nil), top.Links...)
		if !top.HasChild() {
			links = nil
		}
		k, v, l, huge := f(append([][]byte(nil), top.Keys...), append([][]byte(nil), top.Values...), links)
		if c.Cfg.Format == ref.FormatBinary {
			lb := make([][]byte, len(l))
			for i := range l {
				lb[i] = []byte(l[i])
			}
			replaceTop(laxBinary(k, v, lb, huge))
		} else {
			replaceTop(laxV1(k, v, l))
		}
		return true
	}
	applied := true
	switch c.Perturb {
	case "none":
	case "format-unknown":
		root.NodeFormat = c.Str
	case "format-swap":
		if root.NodeFormat == ref.FormatBinary {
			root.NodeFormat = ref.FormatV1
			if c.A%2 == 0 {
				root.NodeFormat = ""
			}
		} else {
			root.NodeFormat = ref.FormatBinary
		}
	case "missing-top":
		name := ref.NodeName([]byte(fmt.Sprintf("missing-%d", c.A)))
		root.Link = &name
	case "truncate":
		if len(topBytes) == 0 {
			applied = false
			break
		}
		replaceTop(topBytes[:c.A%len(topBytes)])
	case "bitflip":
		if len(topBytes) == 0 {
			applied = false
			break
		}
		b := append([]byte(nil), topBytes...)
		bit := c.A % (8 * len(b))
		b[bit/8] ^= 1 << (bit % 8)
		replaceTop(b)
	case "random-bytes":
		b, _ := base64.StdEncoding.DecodeString(c.Bytes)
		replaceTop(b)
		if c.B < 8 {
			root.Height = uint8(c.B) // fuzz findings carry the recorded height here
		}
	case "count-drop-value":
		applied = craft(func(k, v [][]byte, l []string) ([][]byte, [][]byte, []string, uint64) {
			if len(v) == 0 {
				return append(k, k...), v, l, 0
			}
			return k, v[:len(v)-1], l, 0
		})
	case "count-add-key":
		applied = craft(func(k, v [][]byte, l []string) ([][]byte, [][]byte, []string, uint64) {
			extra, _ := w.Cfg.MarshalElem(w.Pool[len(w.Pool)-1])
			return append(k, extra), v, l, 0
		})
	case "count-add-link":
		applied = craft(func(k, v [][]byte, l []string) ([][]byte, [][]byte, []string, uint64) {
			if l == nil {
				l = make([]string, len(k)+1)
			}
			return k, v, append(l, ref.NodeName([]byte("x"))), 0
		})
	case "count-drop-link":
		applied = craft(func(k, v [][]byte, l []string) ([][]byte, [][]byte, []string, uint64) {
			if l == nil {
				l = make([]string, len(k)+1)
				l[0] = ref.NodeName([]byte("x"))
			}
			return k, v, l[:len(l)-1], 0
		})
	case "count-huge":
		if c.Cfg.Format != ref.FormatBinary {
			applied = false
			break
		}
		applied = craft(func(k, v [][]byte, l []string) ([][]byte, [][]byte, []string, uint64) {
			return k, v, l, []uint64{1 << 20, 1 << 31, 1 << 40, 1<<63 - 1, 1 << 62}[c.A%5]
		})
	case "swap-keys", "dup-key":
		if top == nil || len(top.Keys) < 2 {
			applied = false
			break
		}
		applied = craft(func(k, v [][]byte, l []string) ([][]byte, [][]byte, []string, uint64) {
			i := c.A % (len(k) - 1)
			if c.Perturb == "swap-keys" {
				k[i], k[i+1] = k[i+1], k[i]
				v[i], v[i+1] = v[i+1], v[i]
			} else {
				k[i+1] = k[i]
			}
			return k, v, l, 0
		})
	case "corrupt-key":
		if top == nil || len(top.Keys) < 1 {
			applied = false
			break
		}
		applied = craft(func(k, v [][]byte, l []string) ([][]byte, [][]byte, []string, uint64) {
			k[c.A%len(k)] = []byte(`{"unexpected":[1,2`)
			return k, v, l, 0
		})
	case "empty-link":
		// the root record names the node "" (a populated root whose link was blanked): that node does not exist
		if root.Link == nil {
			applied = false
			break
		}
		empty := ""
		root.Link = &empty
	case "local-swap-compare":
		// the loader's order is the writer's order with two adjacent keys of the top node exchanged (a consistent
		// total order, but not the one the node was written under): under it the node's keys are not ascending
		if top == nil || len(top.Keys) < 2 {
			applied = false
			break
		}
		i := c.A % (len(top.Keys) - 1)
		if len(top.Keys) >= 3 {
			i = 1 + c.A%(len(top.Keys)-2) // not the first pair
		}
		x, err1 := w.Cfg.UnmarshalKey(top.Keys[i])
		y, err2 := w.Cfg.UnmarshalKey(top.Keys[i+1])
		if err1 != nil || err2 != nil {
			applied = false
			break
		}
		sigma := func(k interface{}) interface{} {
			if r, err := defCmp(k, x); err == nil && r == 0 {
				return y
			}
			if r, err := defCmp(k, y); err == nil && r == 0 {
				return x
			}
			return k
		}
		customCmp = true
		cmp = func(a, b interface{}) (int, error) { return defCmp(sigma(a), sigma(b)) }
	case "reverse-compare":
		customCmp = true
		cmp = func(a, b interface{}) (int, error) { r, err := defCmp(a, b); return -r, err }
	case "zero-compare":
		customCmp = true
		cmp = func(a, b interface{}) (int, error) { return 0, nil }
	case "raise-height":
		root.Height += uint8(1 + c.A%3)
	case "change-bf":
		root.BranchFactor = []uint{2, 3, 4, 5, 7, 16, 64}[c.A%7]
	}
	if !applied {
		o.Label("skipped:perturbation-not-applicable")
		return nil
	}
	v := classifyRoot(c.Cfg, root, w.Store.Peek, cmp)
	// load with the (possibly perturbed) loader configuration
	w2 := *w
	if customCmp {
		w2.KeyCompare = cmp
	}
	w2.Cache, _ = core.MakeCache(c.Cfg.Cache)
	switch c.Perturb {
	case "reverse-compare", "zero-compare", "local-swap-compare", "raise-height", "change-bf", "none":
		// perturbations of the loader configuration / root record only: the top node may come from the
		// writer's warm cache and must be checked like a freshly loaded one. (With a swapped format a
		// cached, already deserialized node is never decoded, so "undecodable" cannot be observed there:
		// such cases always use a cold cache.)
		if c.B%2 == 0 && w.Cache != nil {
			w2.Cache = w.Cache
			o.Label("warm-shared-cache")
			if c.B%4 == 0 {
				// ... through which the unperturbed root has already been opened successfully (with the right configuration)
				if _, err := w.Load(sr, nil, w.Cache, false); err == nil {
					o.Label("after-a-successful-open-through-that-cache")
				}
			}
		}
	}
	var lm *mast.Mast
	var lerr error
	perr := core.Safely("LoadMast", func() error {
		lm, lerr = root.LoadMast(core.Ctx, w2.RemoteConfig(w.Store, w2.Cache))
		return nil
	})
	desc := fmt.Sprintf("[%s] perturbation %s(a=%d) on a tree of %d entries, height %d; root %s", c.Cfg, c.Perturb, c.A, len(sr.Model), sr.Root.Height, rootStr(root))
	o.Labelf("perturb=%s", c.Perturb)
	if !v.bad {
		o.Label("classified:acceptable-or-unjudged")
		if c.Perturb == "none" && (perr != nil || lerr != nil) {
			// an unperturbed root must load (C05 states it; reported here only as an aborted case)
			o.Label("aborted:base-failure")
		}
		return nil
	}
	o.Label("classified:bad")
	if perr != nil {
		return fmt.Errorf("%s: the root is bad (%s) but LoadMast panicked instead of returning an error: %w", desc, v.why, perr)
	}
	if lerr == nil {
		return fmt.Errorf("%s: the root is bad (%s) but LoadMast returned a tree (size %d, height %d) and no error", desc, v.why, lm.Size(), lm.Height())
	}
	// structurally valid but semantically wrong: the class most likely to be accepted silently
	switch c.Perturb {
	case "swap-keys", "dup-key", "reverse-compare", "zero-compare", "local-swap-compare", "raise-height", "change-bf", "count-drop-value", "count-add-key", "count-add-link", "count-drop-link":
		o.NonTrivial = true
	}
	return nil
}

// FuzzLoadMast: arbitrary bytes as the top node of a root (thorough tier only).
func FuzzLoadMast(f *testing.F) {
	seedCfg := core.Config{BF: 4, Format: ref.FormatBinary, Key: core.KInt, Val: core.VInt, Cache: "none", Marshaler: "json"}
	for _, fm := range core.Formats {
		cfg := seedCfg
		cfg.Format = fm
		for _, n := range []int{1, 5, 17} {
			if gt, err := buildGoldenTree(cfg, n); err == nil && gt.Root.Link != nil {
				b, _ := base64.StdEncoding.DecodeString(gt.Nodes[*gt.Root.Link])
				f.Add(b, uint8(gt.Root.Height), fm == ref.FormatBinary, uint8(cfg.BF))
			}
		}
	}
	f.Add([]byte{0xff, 0xff, 0xff, 0xff, 0x0f}, uint8(0), true, uint8(2))
	f.Add([]byte{0x80, 0x80, 0x80, 0x80, 0x80, 0x80, 0x80, 0x80, 0x80, 0x01}, uint8(0), true, uint8(2))
	f.Add([]byte{1, 1, '5', 0, 0}, uint8(0), true, uint8(4))
	f.Add([]byte(`{"Key":[1,2],"Value":[1],"Link":["a"]}`), uint8(1), false, uint8(4))
	f.Fuzz(func(t *testing.T, top []byte, height uint8, binary bool, bf uint8) {
		if bf < 2 {
			bf = 2
		}
		cfg := seedCfg
		cfg.BF = uint(bf)
		if !binary {
			cfg.Format = ref.FormatV1
		}
		w := core.NewWorld(cfg)
		name := ref.NodeName(top)
		w.Store.Put(name, top)
		root := mast.Root{Link: &name, Size: 1, Height: height % 8, BranchFactor: cfg.BF, NodeFormat: cfg.Format}
		v := classifyRoot(cfg, root, w.Store.Peek, mast.DefaultKeyCompare(json.Marshal))
		var lerr error
		perr := core.Safely("LoadMast", func() error { _, lerr = root.LoadMast(core.Ctx, w.RemoteConfig(w.Store, nil)); return nil })
		if v.bad && (perr != nil || lerr == nil) {
			c := C19Case{Cfg: cfg, Perturb: "random-bytes", Bytes: base64.StdEncoding.EncodeToString(top), B: int(height % 8), Base: []core.Op{{Kind: core.OpInsert, K: 1, V: 1}}}
			saveFuzzFinding(c, root)
			t.Fatalf("bad root (%s) was not rejected with an error: panic=%v err=%v", v.why, perr, lerr)
		}
	})
}

func saveFuzzFinding(c C19Case, root mast.Root) {
	dir := os.Getenv("VERIF_OUT")
	if dir == "" {
		return
	}
	cb, _ := json.Marshal(c)
	b, _ := json.Marshal(map[string]interface{}{"property": "C19", "origin": "native fuzzing (FuzzLoadMast); top node bytes replace the generated tree's top node", "root": root, "case": json.RawMessage(cb)})
	os.MkdirAll(filepath.Join(dir, "replays"), 0o755)
	os.WriteFile(filepath.Join(dir, "replays", "C19-fuzz.json"), b, 0o644)
}

func init() {
	run.Register(run.Prop[C19Case]{
		ID:    "C19",
		Level: "exploration",
		Rule: "case = valid persisted root of a generated tree (all key types, both formats, bf 2-64) + one perturbation: unknown or swapped node format; link to a missing name; top-node bytes truncated at / bit-flipped at a generated position / replaced by generated bytes; top node re-crafted with the reference encoder to have a dropped value, an extra key, an extra or missing link, a huge element count, two swapped or duplicated keys, an undecodable key; loader KeyCompare reversed or constant; Height raised by 1-3; BranchFactor changed. Oracle (one direction, as stated): an independent classifier decides from (root, top-node bytes, loader configuration) whether the root is bad by the property's list; bad => LoadMast must return a non-nil error (a panic or a returned tree is a violation); perturbations the classifier does not call bad are not judged. " +
			"Non-trivial = a bad root whose top node still decodes (count mismatch, key order, comparator, height/branch-factor vs. layers): the class most likely to be accepted silently; distinct by case hash",
		Assumptions: []string{"trailing bytes after a well-formed binary node are not classified as bad", "branch factors below 2 are not generated (not in the property's list)"},
		Gen:         genC19,
		Run:         runC19,
		WriteBefore: true,
	})
}
