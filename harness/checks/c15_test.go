package checks

import (
	"fmt"

	"github.com/jrhy/mast"
	"pgregory.net/rapid"
	"verif/harness/core"
	"verif/harness/ref"
	"verif/harness/run"
)

// C15 — diff cost is proportional to the change, not to the tree.

type C15Case struct {
	Pair PairCase `json:"pair"`
	// Big, when > 0, replaces the pair's histories by a tree of Big int keys at
	// bf 16 and a new version differing in the listed keys.
	Big     int   `json:"big,omitempty"`
	BigBF   uint  `json:"big_bf,omitempty"`
	Changes []int `json:"changes,omitempty"` // key numbers: present -> delete or update, absent -> insert
}

func genC15(t *rapid.T, tier string) C15Case {
	c := C15Case{Pair: genPair(t, tier, core.GenOpts{
		Caches: []string{"none"}, Vals: []string{core.VInt},
		Keys: []string{core.KLK, core.KLK, core.KInt, core.KUint64, core.KString, core.KBytes, core.KStruct},
	}, true)}
	c.Pair.OldRes, c.Pair.NewRes = "reloaded", "reloaded"
	return c
}

func enumC15(tier string, shard, nshards int, yield func(C15Case) bool) (bool, string) {
	sizes := []int{300, 1000, 3000}
	per := 3
	if tier == "thorough" {
		sizes = []int{1000, 3000, 10000, 30000, 60000}
		per = 12
	}
	i := 0
	for _, bf := range []uint{16, 4} {
		for _, n := range sizes {
			if bf == 4 && n > 10000 {
				continue
			}
			for r := 0; r < per; r++ {
				i++
				if i%nshards != shard {
					continue
				}
				// deterministic spread of 1-5 changed keys
				var ch []int
				for j := 0; j <= r%5; j++ {
					ch = append(ch, (r*7919+j*104729+n/3)%(n+n/2))
				}
				if !yield(C15Case{Big: n, BigBF: bf, Changes: ch}) {
					return false, ""
				}
			}
		}
	}
	return false, "large trees (300-3000 entries quick, up to 60000 thorough; bf 16 and 4) differing in 1-5 keys"
}

func countingDiff(w *core.World, oldT, newT *mast.Mast, w2s ...*core.World) (loadsIter, loadsLinks int, err error) {
	if len(w2s) > 0 && w2s[0] != w {
		// trees in two stores: count the loads of both
		w2 := w2s[0]
		m1, m2 := w.Store.Mark(), w2.Store.Mark()
		err = core.Safely("DiffIter", func() error {
			return newT.DiffIter(core.Ctx, oldT, func(a, r bool, k, av, rv interface{}) (bool, error) { return true, nil })
		})
		if err != nil {
			return
		}
		loadsIter = len(w.Store.DistinctLoads(m1)) + len(w2.Store.DistinctLoads(m2))
		m1, m2 = w.Store.Mark(), w2.Store.Mark()
		err = core.Safely("DiffLinks", func() error {
			return newT.DiffLinks(core.Ctx, oldT, func(r bool, l interface{}) (bool, error) { return true, nil })
		})
		loadsLinks = len(w.Store.DistinctLoads(m1)) + len(w2.Store.DistinctLoads(m2))
		return
	}
	mark := w.Store.Mark()
	err = core.Safely("DiffIter", func() error {
		return newT.DiffIter(core.Ctx, oldT, func(a, r bool, k, av, rv interface{}) (bool, error) { return true, nil })
	})
	if err != nil {
		return
	}
	loadsIter = len(w.Store.DistinctLoads(mark))
	mark = w.Store.Mark()
	err = core.Safely("DiffLinks", func() error {
		return newT.DiffLinks(core.Ctx, oldT, func(r bool, l interface{}) (bool, error) { return true, nil })
	})
	loadsLinks = len(w.Store.DistinctLoads(mark))
	return
}

func symDiff(a, b map[string]*ref.Node) (d, shared int) {
	for n := range a {
		if _, ok := b[n]; ok {
			shared++
		} else {
			d++
		}
	}
	for n := range b {
		if _, ok := a[n]; !ok {
			d++
		}
	}
	return
}

func runC15(c C15Case, o *run.Obs) error {
	var w, wNew *core.World
	var oldSR, newSR *core.SavedRoot
	desc := ""
	if c.Big > 0 {
		cfg := core.Config{BF: c.BigBF, Format: ref.FormatBinary, Key: core.KInt, Val: core.VInt, Cache: "none", Marshaler: "json"}
		w = core.NewWorld(cfg)
		// a private pool of consecutive ints (the world's pool is only used for key materialisation)
		w.Pool = make([]interface{}, c.Big+c.Big/2+1)
		for i := range w.Pool {
			w.Pool[i] = i
		}
		t, err := w.NewTree()
		if err != nil {
			o.Label("aborted:base-failure")
			return nil
		}
		for i := 0; i < c.Big; i++ {
			if err := w.Insert(t, i, i%5); err != nil {
				o.Label("aborted:base-failure")
				return nil
			}
		}
		if oldSR, err = w.Persist(t); err != nil {
			o.Label("aborted:base-failure")
			return nil
		}
		t2, err := w.Load(oldSR, nil, nil, false)
		if err != nil {
			o.Label("aborted:base-failure")
			return nil
		}
		for j, k := range c.Changes {
			k = k % len(w.Pool)
			var err error
			if _, present := t2.Model[k]; present && j%2 == 0 {
				err = w.Delete(t2, k)
			} else {
				err = w.Insert(t2, k, 9)
			}
			if err != nil {
				o.Label("aborted:base-failure")
				return nil
			}
		}
		if newSR, err = w.Persist(t2); err != nil {
			o.Label("aborted:base-failure")
			return nil
		}
		desc = fmt.Sprintf("[big tree of %d int keys, bf=%d, %d changed keys %v]", c.Big, c.BigBF, len(c.Changes), c.Changes)
		w.Store.TrimLog()
	} else {
		p, ok := buildPair(c.Pair, o)
		if !ok || p.oldSR == nil || p.newSR == nil {
			o.Label("aborted:base-failure")
			return nil
		}
		w, wNew, oldSR, newSR = p.w, p.wNew, p.oldSR, p.newSR
		desc = fmt.Sprintf("[%s] mode=%s old=%s new=%s", c.Pair.Cfg, c.Pair.Mode, w.DescribeModel(oldSR.Model), w.DescribeModel(newSR.Model))
	}
	if wNew == nil {
		wNew = w
	}
	nOld, err1 := w.Reachable(oldSR.Root)
	nNew, err2 := wNew.Reachable(newSR.Root)
	if err1 != nil || err2 != nil {
		o.Label("aborted:root-not-complete(C03)")
		return nil
	}
	d, shared := symDiff(nOld, nNew)
	// fresh, cache-less trees so that nothing is in memory
	oldT, err := w.Load(oldSR, nil, nil, false)
	if err != nil {
		o.Label("aborted:base-failure")
		return nil
	}
	newT, err := wNew.Load(newSR, nil, nil, false)
	if err != nil {
		o.Label("aborted:base-failure")
		return nil
	}
	li, ll, err := countingDiff(w, oldT.M, newT.M, wNew)
	if err != nil {
		o.Label("aborted:diff-failed(C06/C07)")
		return nil
	}
	bound := 2*d + 2
	if li > bound {
		return fmt.Errorf("%s: DiffIter loaded %d distinct nodes; the versions differ in D=%d nodes (bound 2D+2=%d; %d shared nodes, old %d, new %d)", desc, li, d, bound, shared, len(nOld), len(nNew))
	}
	if ll > bound {
		return fmt.Errorf("%s: DiffLinks loaded %d distinct nodes; the versions differ in D=%d nodes (bound 2D+2=%d; %d shared nodes)", desc, ll, d, bound, shared)
	}
	if d == 0 && (li != 0 || ll != 0) {
		return fmt.Errorf("%s: diffing a version with itself loaded %d / %d nodes, expected none", desc, li, ll)
	}
	// the same version opened twice: no loads at all
	same, err := wNew.Load(newSR, nil, nil, false)
	if err == nil {
		si, sl, err := countingDiff(wNew, same.M, newT.M)
		if err == nil && (si != 0 || sl != 0) {
			return fmt.Errorf("%s: diffing a version with itself loaded %d (DiffIter) / %d (DiffLinks) nodes, expected none", desc, si, sl)
		}
	}
	neverLoaded := shared - 0
	o.NonTrivial = d >= 1 && shared >= 10 && li < shared
	if c.Big > 0 {
		o.Labelf("big=%d", c.Big)
	} else {
		o.Labelf("mode=%s", c.Pair.Mode)
		o.Labelf("key=%s", c.Pair.Cfg.Key)
	}
	_ = neverLoaded
	o.Labelf("D=%d", min(d/5*5, 50))
	if shared >= 10 {
		o.Label("shared>=10")
	}
	return nil
}

func init() {
	run.Register(run.Prop[C15Case]{
		ID:    "C15",
		Level: "exploration",
		Rule: "case = ordered pair of persisted versions (as C07: derived / unrelated / same; bf 2-64) re-opened from their roots on a recording store WITHOUT cache, plus an enumerated family of large trees (300-3000 int keys quick, up to 60000 thorough; bf 16 and 4) whose new version differs in 1-5 keys. Oracle: the number of DISTINCT names passed to Persist.Load during DiffIter, and during DiffLinks, is <= 2D+2 where D = |N_old symmetric-difference N_new| computed by the reference walker; zero loads when both sides are the same version. " +
			"Non-trivial = D >= 1 AND >= 10 shared nodes AND fewer nodes loaded than are shared (i.e. common subtrees were skipped); distinct by case hash",
		Assumptions: []string{"loads are counted per API call on freshly opened trees, so nothing is served from memory"},
		Gen:         genC15,
		Run:         runC15,
		Enumerate:   enumC15,
	})
}
