package checks

import (
	"errors"
	"fmt"
	"os"
	"time"

	"github.com/jrhy/mast"
	"pgregory.net/rapid"
	"verif/harness/core"
	"verif/harness/env"
	"verif/harness/ref"
	"verif/harness/run"
)

// C15 — diff cost is proportional to the change, not to the tree.

type C15Case struct {
	Pair PairCase `json:"pair"`
	// Big, when > 0, replaces the pair's histories by a tree of Big int keys at
	// bf 16 and a new version differing in the listed keys.
	Big     int   `json:"big,omitempty"`
	BigBF   uint  `json:"big_bf,omitempty"`
	Changes []int `json:"changes,omitempty"` // key numbers: present -> delete or update, absent -> insert
	// ColdCache: the two trees are opened with fresh (cold) node caches of their own instead of none
	ColdCache bool `json:"cold_cache,omitempty"`
	// WriterCache: the versions were written through a node cache; one side of the diff is opened through
	// that (warm) cache, the other side without any cache (e.g. another process)
	WriterCache bool `json:"writer_cache,omitempty"`
	// Alias: the new version is opened through a second handle on the same store that reports another NodeURLPrefix
	Alias bool `json:"alias,omitempty"`
}

func genC15(t *rapid.T, tier string) C15Case {
	c := C15Case{Pair: genPair(t, tier, core.GenOpts{
		Caches: []string{"none", "none", "big", "arc"}, Vals: []string{core.VInt},
		Keys:     []string{core.KLK, core.KLK, core.KInt, core.KUint64, core.KString, core.KBytes, core.KStruct, core.KInt32},
		BigOneIn: 10,
	}, true)}
	c.Pair.OldRes, c.Pair.NewRes = "reloaded", "reloaded"
	c.ColdCache = rapid.IntRange(0, 3).Draw(t, "coldcache") == 0
	if c.Pair.Cfg.Cache != "none" {
		c.WriterCache, c.ColdCache = true, false
	}
	c.Alias = rapid.IntRange(0, 4).Draw(t, "alias") == 0
	return c
}

func enumC15(tier string, shard, nshards int, yield func(C15Case) bool) (bool, string) {
	sizes := []int{300, 1000, 3000}
	per := 3
	if tier == "thorough" {
		sizes = []int{1000, 3000, 10000, 30000, 60000}
		per = 12
	}
	i := 0
	for _, bf := range []uint{16, 4, 3, 2} {
		for _, n := range sizes {
			if bf == 4 && n > 10000 {
				continue
			}
			if bf <= 3 && (n < 1000 || n > 3000) {
				continue // tall trees: 1000-3000 entries at bf 2 and 3 (10+ levels)
			}
			for r := 0; r < per; r++ {
				i++
				if i%nshards != shard {
					continue
				}
				// deterministic spread of 1-5 changed keys
				var ch []int
				for j := 0; j <= r%5; j++ {
					ch = append(ch, (r*7919+j*104729+n/3)%(n+n/2))
				}
				if !yield(C15Case{Big: n, BigBF: bf, Changes: ch, ColdCache: r%3 == 2, WriterCache: r%3 == 1, Alias: r%3 == 0 && (n/100+r)%2 == 1}) {
					return false, ""
				}
			}
		}
	}
	if ok, _ := enumWidePairs(tier, shard, nshards, func(pc PairCase) bool { return yield(C15Case{Pair: pc}) }); !ok && false {
		return false, ""
	}
	// a dense run of keys plus ONE far key of a high layer (a chain of key-less nodes on one side only, above subtrees
	// that both versions share), in both directions
	for _, fk := range [][3]int{{4, 320, 448}, {4, 300, 384}, {2, 200, 256}, {2, 300, 384}, {3, 250, 324}, {3, 100, 243}, {16, 300, 512}} {
		for dir := 0; dir < 2; dir++ {
			i++
			if i%nshards != shard {
				continue
			}
			cs := C15Case{Big: fk[1], BigBF: uint(fk[0]), Changes: []int{fk[2]}, ColdCache: dir == 1}
			if !yield(cs) {
				return false, ""
			}
		}
	}
	// versions one key apart whose heights differ: exactly bf^k entries plus one insert (the tree grows a level), and
	// bf^k+1 entries minus one (it shrinks): every subtree is common to both versions but sits one level deeper in one
	for _, bf := range []uint{2, 3, 4, 16} {
		for p := int(bf); p <= 5000; p *= int(bf) {
			if p < 200 {
				continue
			}
			for dir := 0; dir < 2; dir++ {
				i++
				if i%nshards != shard {
					continue
				}
				cs := C15Case{Big: p, BigBF: bf, Changes: []int{p}, ColdCache: (p+dir)%3 == 0}
				if dir == 1 {
					cs = C15Case{Big: p + 1, BigBF: bf, Changes: []int{p / 2}, ColdCache: (p+dir)%3 == 0}
				}
				if !yield(cs) {
					return false, ""
				}
			}
		}
	}
	return false, "large trees (300-3000 entries quick, up to 60000 thorough; bf 16 and 4) differing in 1-5 keys; trees of bf^k (+1) entries one insert (delete) away from growing (shrinking) a level"
}

// countingDiff runs the three diff interfaces and returns, for each, the number of distinct node
// names loaded from the store(s) involved. settle: when a node cache is configured, give any
// background reads a moment to arrive before counting (waiting can only reveal more reads; code
// without background reads is unaffected).
func countingDiff(w *core.World, oldT, newT *mast.Mast, settle bool, w2s ...*core.World) (loads [3]int, err error) {
	sets, err := countingDiffSets(w, oldT, newT, settle, w2s...)
	for i := range sets {
		loads[i] = len(sets[i])
	}
	return loads, err
}

func countingDiffSets(w *core.World, oldT, newT *mast.Mast, settle bool, w2s ...*core.World) (loads [3]map[string]bool, err error) {
	worlds := []*core.World{w}
	if len(w2s) > 0 && w2s[0] != w && w2s[0] != nil {
		worlds = append(worlds, w2s[0])
	}
	measure := func(what string, f func() error) (map[string]bool, error) {
		marks := make([]int, len(worlds))
		for i, x := range worlds {
			marks[i] = x.Store.Mark()
		}
		if err := core.Safely(what, f); err != nil {
			return nil, err
		}
		if settle {
			time.Sleep(3 * time.Millisecond)
		}
		n := map[string]bool{}
		for i, x := range worlds {
			for name := range x.Store.DistinctLoads(marks[i]) {
				n[name] = true
			}
		}
		return n, nil
	}
	if loads[0], err = measure("DiffIter", func() error {
		return newT.DiffIter(core.Ctx, oldT, func(a, r bool, k, av, rv interface{}) (bool, error) { return true, nil })
	}); err != nil {
		return
	}
	if loads[1], err = measure("DiffLinks", func() error {
		return newT.DiffLinks(core.Ctx, oldT, func(r bool, l interface{}) (bool, error) { return true, nil })
	}); err != nil {
		return
	}
	loads[2], err = measure("StartDiff/NextEntry", func() error {
		dc, err := newT.StartDiff(core.Ctx, oldT)
		if err != nil {
			return err
		}
		for i := 0; i < 1000000; i++ {
			if _, err := dc.NextEntry(core.Ctx); err != nil {
				if errors.Is(err, mast.ErrNoMoreDiffs) {
					return nil
				}
				return err
			}
		}
		return nil
	})
	return
}

func symDiff(a, b map[string]*ref.Node) (d, shared int) {
	for n := range a {
		if _, ok := b[n]; ok {
			shared++
		} else {
			d++
		}
	}
	for n := range b {
		if _, ok := a[n]; !ok {
			d++
		}
	}
	return
}

func runC15(c C15Case, o *run.Obs) error {
	var w, wNew *core.World
	var oldSR, newSR *core.SavedRoot
	desc := ""
	if c.Big > 0 {
		cfg := core.Config{BF: c.BigBF, Format: ref.FormatBinary, Key: core.KInt, Val: core.VInt, Cache: "none", Marshaler: "json"}
		if c.WriterCache {
			cfg.Cache = "big"
		}
		w = core.NewWorld(cfg)
		// a private pool of consecutive ints (the world's pool is only used for key materialisation)
		w.Pool = make([]interface{}, c.Big+c.Big/2+1)
		for i := range w.Pool {
			w.Pool[i] = i
		}
		t, err := w.NewTree()
		if err != nil {
			o.Label("aborted:base-failure")
			return nil
		}
		for i := 0; i < c.Big; i++ {
			if err := w.Insert(t, i, i%5); err != nil {
				o.Label("aborted:base-failure")
				return nil
			}
		}
		if oldSR, err = w.Persist(t); err != nil {
			o.Label("aborted:base-failure")
			return nil
		}
		t2, err := w.Load(oldSR, nil, w.Cache, false)
		if err != nil {
			o.Label("aborted:base-failure")
			return nil
		}
		for j, k := range c.Changes {
			k = k % len(w.Pool)
			var err error
			if _, present := t2.Model[k]; present && j%2 == 0 {
				err = w.Delete(t2, k)
			} else {
				err = w.Insert(t2, k, 9)
			}
			if err != nil {
				o.Label("aborted:base-failure")
				return nil
			}
		}
		if newSR, err = w.Persist(t2); err != nil {
			o.Label("aborted:base-failure")
			return nil
		}
		desc = fmt.Sprintf("[big tree of %d int keys, bf=%d, %d changed keys %v]", c.Big, c.BigBF, len(c.Changes), c.Changes)
		w.Store.TrimLog()
	} else {
		p, ok := buildPair(c.Pair, o)
		if !ok || p.oldSR == nil || p.newSR == nil {
			o.Label("aborted:base-failure")
			return nil
		}
		w, wNew, oldSR, newSR = p.w, p.wNew, p.oldSR, p.newSR
		desc = fmt.Sprintf("[%s] mode=%s old=%s new=%s", c.Pair.Cfg, c.Pair.Mode, w.DescribeModel(oldSR.Model), w.DescribeModel(newSR.Model))
	}
	if wNew == nil {
		wNew = w
	}
	nOld, err1 := w.Reachable(oldSR.Root)
	nNew, err2 := wNew.Reachable(newSR.Root)
	if err1 != nil || err2 != nil {
		o.Label("aborted:root-not-complete(C03)")
		return nil
	}
	d, shared := symDiff(nOld, nNew)
	prelude := 0
	if c.Big == 0 {
		prelude = c.Pair.Prelude
	} else if len(c.Changes)%2 == 0 {
		prelude = 1 + c.Big%4
	}
	// freshly opened trees so that nothing is in memory; either cache-less or with a cold cache of their own
	var cOld, cNew mast.NodeCache
	if c.ColdCache {
		cOld, cNew = mast.NewNodeCache(1024), mast.NewNodeCache(1024)
	}
	open2 := func() (*core.Tree, *core.Tree, bool) {
		if c.ColdCache {
			cOld, cNew = mast.NewNodeCache(1024), mast.NewNodeCache(1024)
		}
		if c.WriterCache {
			cOld, cNew = nil, wNew.Cache // the new side through the writer's warm cache, the old side decoded from the store
		}
		a, err1 := w.Load(oldSR, nil, cOld, false)
		var newStore mast.Persist
		if c.Alias && wNew == w {
			newStore = env.AliasStore{RecStore: w.Store, AliasPrefix: w.Store.Prefix + "/./"}
		}
		b, err2 := wNew.Load(newSR, newStore, cNew, false)
		return a, b, err1 == nil && err2 == nil
	}
	bound := 2*d + 2
	names := []string{"DiffIter", "DiffLinks", "StartDiff/NextEntry"}
	// Open known finding "diff-loads-shared-nodes-adjacent-to-change": the diff opens shared nodes that
	// hang directly below a differing node (when its two traversal stacks are misaligned it needs their
	// keys) and, inside its de-duplication helper, follows the key-less chain below a differing link down
	// to the first node with a key. The excusable set E is exactly that: shared children of nodes that
	// belong to one version only, the key-less shared nodes below them, and the first keyed node ending
	// such a chain - restricted to children that are DISPLACED, i.e. whose depth or inherited key interval
	// differs between the two versions (a shared child in the same position on both sides is skipped by the
	// real code and stays fully counted). While the finding is open, loads inside E are not counted (and are tallied).
	excusable := map[string]bool{}
	node := func(name string) *ref.Node {
		if n := nOld[name]; n != nil {
			return n
		}
		return nNew[name]
	}
	isShared := func(name string) bool { return nOld[name] != nil && nNew[name] != nil }
	// position of every node in each version: depth below the root and the key interval inherited from its ancestors
	type position struct {
		depth  int
		lo, hi string
	}
	positions := func(nodes map[string]*ref.Node, root string) map[string]position {
		out := map[string]position{}
		var walk func(name string, p position)
		walk = func(name string, p position) {
			n := nodes[name]
			if n == nil {
				return
			}
			out[name] = p
			for i, l := range n.Links {
				if l == "" {
					continue
				}
				cp := position{depth: p.depth + 1, lo: p.lo, hi: p.hi}
				if i > 0 {
					cp.lo = "k:" + string(n.Keys[i-1])
				}
				if i < len(n.Keys) {
					cp.hi = "k:" + string(n.Keys[i])
				}
				walk(l, cp)
			}
		}
		if root != "" {
			walk(root, position{})
		}
		return out
	}
	posOld := positions(nOld, core.RootOf(oldSR.Root).Link)
	posNew := positions(nNew, core.RootOf(newSR.Root).Link)
	// a shared node in the same position (depth and key interval) on both sides is met by both traversal
	// stacks at the same time and skipped; only displaced shared nodes below a change are excusable
	displaced := func(name string) bool { return posOld[name] != posNew[name] }
	for _, side := range []map[string]*ref.Node{nOld, nNew} {
		for name, n := range side {
			if isShared(name) {
				continue
			}
			for _, l := range n.Links {
				if l == "" || !isShared(l) || !displaced(l) {
					continue
				}
				// ... and, because the two stacks stay one level apart once a displaced shared subtree has been
				// opened, the leftmost spine below it (each step opens the first child again to find the next key)
				for l != "" && isShared(l) && !excusable[l] {
					excusable[l] = true
					if cn := node(l); cn != nil && len(cn.Links) > 0 {
						l = cn.Links[0]
					} else {
						break
					}
				}
			}
		}
	}
	judge := func(what string, set map[string]bool) error {
		n := len(set)
		if d == 0 && n != 0 {
			return fmt.Errorf("%s: %s on a version and itself loaded %d nodes, expected none", desc, what, n)
		}
		if n <= bound {
			return nil
		}
		outside := 0
		for name := range set {
			if !excusable[name] {
				outside++
			}
			if os.Getenv("VERIF_DEBUG_C15") != "" {
				nk := -1
				if nd := node(name); nd != nil {
					nk = len(nd.Keys)
				}
				fmt.Printf("C15DEBUG %s loaded %s shared=%v excusable=%v keys=%d posOld=%+v posNew=%+v\n", what, name[:6], isShared(name), excusable[name], nk, posOld[name], posNew[name])
			}
		}
		if outside <= bound && o.Excl("diff-loads-shared-nodes-adjacent-to-change") {
			return nil
		}
		return fmt.Errorf("%s: %s loaded %d distinct nodes (%d of them other than shared nodes directly below a change); the versions differ in D=%d nodes (bound 2D+2=%d; %d shared nodes, old %d, new %d)", desc, what, n, outside, d, bound, shared, len(nOld), len(nNew))
	}
	var li int
	// each interface is measured on freshly opened trees (a warm cache would hide reads)
	for which := 0; which < 3; which++ {
		if prelude > 0 {
			// another diff, on trees of its own, was started and abandoned part-way before the measured one
			if pa, pb, ok := open2(); ok {
				diffPrelude(&pair{old: pa, new: pb}, prelude)
				o.Label("after-an-abandoned-diff")
			}
		}
		if c.WriterCache && wNew.Cache != nil {
			// the writer's cache has also served ordinary lookups on this version before the diff
			if lt, err := wNew.Load(newSR, nil, wNew.Cache, false); err == nil {
				for j, ki := range newSR.Model.Keys() {
					if j%3 == 0 || j < 8 {
						_ = wNew.Get(lt, ki)
					}
				}
			}
		}
		oldT, newT, ok := open2()
		if !ok {
			o.Label("aborted:base-failure")
			return nil
		}
		sets, err := countingDiffSets(w, oldT.M, newT.M, c.ColdCache, wNew)
		if err != nil {
			o.Label("aborted:diff-failed(C06/C07)")
			return nil
		}
		if !c.ColdCache || c.WriterCache {
			// without a cold cache every interface can be measured in the same run
			for j := 0; j < 3; j++ {
				if err := judge(names[j], sets[j]); err != nil {
					return err
				}
			}
			li = len(sets[0])
			break
		}
		if which == 0 {
			li = len(sets[0])
		}
		if err := judge("with a cold node cache, "+names[which], sets[which]); err != nil {
			return err
		}
	}
	// the same version opened twice: no loads at all
	if same, err := wNew.Load(newSR, nil, cNew, false); err == nil {
		if other, err := wNew.Load(newSR, nil, cOld, false); err == nil {
			loads, err := countingDiff(wNew, same.M, other.M, c.ColdCache)
			if err == nil && (loads[0] != 0 || loads[1] != 0 || loads[2] != 0) {
				return fmt.Errorf("%s: diffing a version with itself loaded %d (DiffIter) / %d (DiffLinks) / %d (StartDiff+NextEntry) nodes, expected none", desc, loads[0], loads[1], loads[2])
			}
		}
	}
	// ... also when both handles share a tiny cache from which other traffic has evicted whatever opening them left there
	if tiny, _ := core.MakeCache("tiny1"); tiny != nil {
		a, err1 := wNew.Load(newSR, nil, tiny, false)
		b, err2 := wNew.Load(newSR, nil, tiny, false)
		if err1 == nil && err2 == nil {
			if third, err := w.Load(oldSR, nil, tiny, false); err == nil {
				_ = w.Check(third) // reads the whole old version through the same one-slot cache
			}
			loads, err := countingDiff(wNew, a.M, b.M, false)
			if err == nil && (loads[0] != 0 || loads[1] != 0 || loads[2] != 0) {
				return fmt.Errorf("%s: diffing a version with itself (two handles sharing a one-slot cache that other reads have turned over) loaded %d (DiffIter) / %d (DiffLinks) / %d (StartDiff+NextEntry) nodes, expected none", desc, loads[0], loads[1], loads[2])
			}
		}
	}
	neverLoaded := shared - 0
	o.NonTrivial = d >= 1 && shared >= 10 && li < shared
	if c.Big > 0 {
		o.Labelf("big=%d", c.Big)
	} else {
		o.Labelf("mode=%s", c.Pair.Mode)
		o.Labelf("key=%s", c.Pair.Cfg.Key)
	}
	_ = neverLoaded
	o.Labelf("D=%d", min(d/5*5, 50))
	if shared >= 10 {
		o.Label("shared>=10")
	}
	return nil
}

func init() {
	run.Register(run.Prop[C15Case]{
		ID:    "C15",
		Level: "exploration",
		Rule: "case = ordered pair of persisted versions (as C07: derived / unrelated / same; bf 2-64) re-opened from their roots on a recording store WITHOUT cache, plus an enumerated family of large trees (300-3000 int keys quick, up to 60000 thorough; bf 16 and 4) whose new version differs in 1-5 keys. Further families: the new version opened through an alias handle of the same store; versions one key apart with different heights; a dense run plus one far key of a high layer (an entry-less intermediate node on one side only), both directions; diffs after an abandoned diff; lookups and cursor descents through the writer's (small) cache before the diff; a same-version diff through a turned-over one-slot cache. Oracle: the number of DISTINCT names passed to Persist.Load during DiffIter, and during DiffLinks, is <= 2D+2 where D = |N_old symmetric-difference N_new| computed by the reference walker; zero loads when both sides are the same version. " +
			"Non-trivial = D >= 1 AND >= 10 shared nodes AND fewer nodes loaded than are shared (i.e. common subtrees were skipped); distinct by case hash",
		Assumptions: []string{"loads are counted per API call on freshly opened trees, so nothing is served from memory"},
		Gen:         genC15,
		Run:         runC15,
		Enumerate:   enumC15,
	})
}
