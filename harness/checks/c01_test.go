package checks

import (
	"errors"
	"fmt"

	"github.com/jrhy/mast"
	"pgregory.net/rapid"
	"verif/harness/core"
	"verif/harness/ref"
	"verif/harness/run"
)

// C01 — map semantics vs. a sorted-map model.

type C01Case struct {
	Cfg   core.Config `json:"cfg"`
	InMem bool        `json:"inmem,omitempty"` // start from mast.NewInMemory() (bf 16, no store)
	Fill  []core.Op   `json:"fill,omitempty"`
	Prog  []core.Op   `json:"prog"`
}

func genC01(t *rapid.T, tier string) C01Case {
	c := C01Case{Cfg: core.GenConfig(t, tier, core.GenOpts{BigOneIn: 10, Vals: core.ValKindsWithFloat})}
	if rapid.IntRange(0, 11).Draw(t, "inmem") == 0 {
		c.InMem = true
		c.Cfg.BF = 16
		c.Cfg.Cache = "none"
		c.Cfg.Marshaler = "json"
		c.Cfg.Format = ref.FormatBinary
		if c.Cfg.Cmp == "reversed" {
			c.Cfg.Cmp = "" // NewInMemory() has no configuration: it always uses the default order
		}
	}
	maxOps := 80
	if tier == "thorough" {
		maxOps = 160
	}
	c.Fill = core.GenFillCfg(t, c.Cfg, 40)
	c.Prog = core.GenProgram(t, core.WithBulk(core.DefaultWeights, c.Cfg), maxOps, 2)
	return c
}

func runC01(c C01Case, o *run.Obs) error {
	w := core.NewWorld(c.Cfg)
	m, err := core.NewMachine(w, 2)
	if err != nil {
		return fmt.Errorf("creating an empty tree failed: %w", err)
	}
	if c.InMem {
		im := mast.NewInMemory()
		m.Slots[0] = &core.Tree{M: &im, Model: core.Model{}, InMemory: true}
	}
	m.CheckReadOnly = true
	m.FullCheckEvery = 8
	step := 0
	for _, ops := range [][]core.Op{c.Fill, c.Prog} {
		for _, op := range ops {
			step++
			if err := m.Step(op); err != nil && !errors.Is(err, core.ErrSkipped) {
				return fmt.Errorf("step %d %s [%s]: %w", step, op, c.Cfg, err)
			}
		}
	}
	if err := m.CheckAll(); err != nil {
		return fmt.Errorf("final comparison [%s]: %w", c.Cfg, err)
	}
	ev := m.Ev
	o.NonTrivial = ev.Deletes >= 1 && ev.MaxHeight >= 2 && ev.MutAfterReload >= 1
	o.Labelf("key=%s", c.Cfg.Key)
	o.Labelf("val=%s", c.Cfg.Val)
	o.Labelf("format=%s", c.Cfg.Format)
	o.Labelf("cache=%s", c.Cfg.Cache)
	o.Labelf("marshaler=%s", c.Cfg.Marshaler)
	o.Labelf("bf=%d", c.Cfg.BF)
	o.Labelf("maxheight=%d", ev.MaxHeight)
	if c.InMem {
		o.Label("in-memory-tree")
	}
	if ev.Deletes > 0 {
		o.Label("has-delete")
	}
	if ev.Emptied > 0 {
		o.Label("emptied")
	}
	if ev.ReusedAfterEmpty > 0 {
		o.Label("emptied-then-reused")
	}
	if ev.MutAfterReload > 0 {
		o.Label("mutation-after-reload")
	}
	if ev.FailedDeletes > 0 {
		o.Label("has-failing-delete")
	}
	return nil
}

// small-scope exhaustive: all insert/delete words of length <= 5 over 4 LK
// keys x all layer tables in {0,1,2}^4 at bf=2 (thorough tier only).
func enumC01(tier string, shard, nshards int, yield func(C01Case) bool) (bool, string) {
	if tier != "thorough" {
		return false, ""
	}
	const nkeys, maxLen = 4, 5
	idx := 0
	for tbl := 0; tbl < 81; tbl++ {
		layers := make([]uint8, nkeys)
		x := tbl
		for i := range layers {
			layers[i] = uint8(x % 3)
			x /= 3
		}
		cfg := core.Config{BF: 2, Format: ref.FormatBinary, Key: core.KLK, Val: core.VInt, Cache: "none", Marshaler: "json", LKLayers: layers}
		for l := 1; l <= maxLen; l++ {
			total := 1
			for i := 0; i < l; i++ {
				total *= 2 * nkeys
			}
			for word := 0; word < total; word++ {
				idx++
				if idx%nshards != shard {
					continue
				}
				prog := make([]core.Op, 0, l+1)
				x := word
				present := map[int]bool{}
				for i := 0; i < l; i++ {
					s := x % (2 * nkeys)
					x /= 2 * nkeys
					k := s % nkeys
					if s < nkeys {
						prog = append(prog, core.Op{Kind: core.OpInsert, K: k, V: i})
						present[k] = true
					} else if present[k] {
						// resolve "delete key k" to the present-key selector
						sel := 0
						for j := 0; j < k; j++ {
							if present[j] {
								sel++
							}
						}
						prog = append(prog, core.Op{Kind: core.OpDelete, K: sel})
						delete(present, k)
					} else {
						sel := 0
						for j := 0; j < k; j++ {
							if !present[j] {
								sel++
							}
						}
						prog = append(prog, core.Op{Kind: core.OpDelAbsent, K: sel})
					}
				}
				prog = append(prog, core.Op{Kind: core.OpIter})
				if !yield(C01Case{Cfg: cfg, Prog: prog}) {
					return false, ""
				}
			}
		}
	}
	return true, "all insert/delete words of length<=5 over 4 user keys x all layer tables in {0,1,2}^4, bf=2"
}

func init() {
	run.Register(run.Prop[C01Case]{
		ID:    "C01",
		Level: "exploration",
		Rule: "case = configuration (key type, value type incl. float64 with both zeros - one zero never written over the other, reads compared bit for bit -, bf, format, cache, marshaler, in-memory) + generated fill + program of <=80 (quick) / <=160 (thorough) ops over 2 slots, every op result compared with a sorted-map model, " +
			"full Size/Iter comparison after every read-only op, every 8th step and at the end. Non-trivial = at least one successful delete AND height >= 2 reached AND at least one mutation after a reload; distinct by hash of the whole case",
		Assumptions: []string{"encoding/json is the configured default marshaler (configuration, not code under test)", "nil keys and nil values are not generated (not documented as supported)"},
		Gen:         genC01,
		Run:         runC01,
		Enumerate:   enumC01,
	})
}
