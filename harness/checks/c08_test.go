package checks

import (
	"bytes"
	"fmt"

	"github.com/jrhy/mast"
	"pgregory.net/rapid"
	"verif/harness/core"
	"verif/harness/env"
	"verif/harness/ref"
	"verif/harness/run"
)

// C08 — nodes are content-addressed and deterministically encoded.

var c08Weights = core.OpWeights{
	core.OpInsert: 20, core.OpInsertNew: 25, core.OpUpdate: 8, core.OpInsertSame: 3, core.OpDelete: 24, core.OpDeleteTop: 5,
	core.OpClone: 4, core.OpPersistFail: 2, core.OpPersist: 12, core.OpReload: 6, core.OpReloadJSON: 2, core.OpDrain: 1,
}

func genC08(t *rapid.T, tier string) HistCase {
	return genHist(t, tier, core.GenOpts{BigOneIn: 12, Vals: core.ValKindsWithFloat}, c08Weights, 60, 120, 30, 3)
}

func runC08(c HistCase, o *run.Obs) error {
	type ver struct {
		model core.Model
		n     int
	}
	byRoot := map[string]ver{}         // root name -> contents
	contentName := map[string]string{} // canonical node content -> name
	restoredSame := 0
	mark := 0
	var ww *core.World
	checkStores := func(w *core.World) error {
		calls := w.Store.StoresSince(mark)
		mark = w.Store.Mark()
		for _, call := range calls {
			want := ref.NodeName(call.Bytes)
			if call.Name != want {
				return fmt.Errorf("node written under name %q but base64url(BLAKE2b-256(bytes)) is %q (%d bytes)", call.Name, want, len(call.Bytes))
			}
			if !bytes.Equal(call.Given, call.Bytes) {
				return fmt.Errorf("the %d bytes handed to Store(%s) were modified after the call (a store may keep the slice it is given): they no longer hash to their name", len(call.Bytes), call.Name)
			}
			n, err := w.Cfg.DecodeNode(call.Bytes)
			if err != nil {
				return fmt.Errorf("bytes written as %s do not decode with the reference decoder: %w", call.Name, err)
			}
			canon := w.Cfg.EncodeNode(n)
			if !bytes.Equal(canon, call.Bytes) {
				return fmt.Errorf("bytes written as %s are not the canonical encoding of their own entries and child names:\n wrote %q\n canon %q", call.Name, call.Bytes, canon)
			}
			ck := string(canon)
			if prev, ok := contentName[ck]; ok {
				if prev != call.Name {
					return fmt.Errorf("the same node content was written under two names %s and %s", prev, call.Name)
				}
				restoredSame++
			}
			contentName[ck] = call.Name
		}
		if len(w.Store.Conflicts) > 0 {
			return fmt.Errorf("name %s was written with two different byte strings", w.Store.Conflicts[0])
		}
		return nil
	}
	m, err := runHist(c, o, 3, func(w *core.World, m *core.Machine) {
		ww = w
		m.OnPersist = func(si int, t *core.Tree, sr *core.SavedRoot) error {
			if err := checkStores(w); err != nil {
				return err
			}
			link := core.RootOf(sr.Root).Link
			if prev, ok := byRoot[link]; ok && !prev.model.Equal(sr.Model) {
				return fmt.Errorf("persisted versions #%d and #%d have the same root name %q but different contents %s vs %s", prev.n, m.Ev.Persists, link, w.DescribeModel(prev.model), w.DescribeModel(sr.Model))
			}
			byRoot[link] = ver{sr.Model.Clone(), m.Ev.Persists}
			return nil
		}
	}, nil)
	if err != nil || m == nil {
		return err
	}
	if err := checkStores(ww); err != nil {
		return fmt.Errorf("[%s] %w", c.Cfg, err)
	}
	// a root name identifies contents for good: loading the retained names again (through the
	// shared cache and without) must give the contents recorded when the name was returned
	roots := m.Roots
	if len(roots) > 6 {
		roots = roots[len(roots)-6:]
	}
	for _, sr := range roots {
		for pass, cache := range []mast.NodeCache{ww.Cache, nil} {
			if pass == 0 && cache == nil {
				continue
			}
			lt, err := ww.Load(sr, nil, cache, false)
			if err != nil {
				o.Label("aborted:root-not-loadable(C03/C05)")
				return nil
			}
			if err := ww.CompareContents(lt.M, sr.Model); err != nil {
				return fmt.Errorf("[%s] root name %q no longer identifies the contents it was returned for (cache pass %d): %w", c.Cfg, core.RootOf(sr.Root).Link, pass, err)
			}
		}
	}
	if cm, _ := c.Cfg.Codec(); cm == nil && c.Cfg.Val != core.VNil && c.Cfg.Format == ref.FormatBinary && len(roots) > 0 {
		// a writer that names no value type (RemoteConfig without ValuesLike, registered types instead): what it writes is still
		// a function of the entries alone, so the same contents get the same root name as under the ordinary configuration
		sr := roots[len(roots)-1]
		st := env.NewRecStore("mem://writer-without-valueslike")
		rc := ww.RemoteConfig(st, nil)
		rc.ValuesLike, rc.UnmarshalerUsesRegisteredTypes = nil, true
		var wm *mast.Mast
		if err := core.Safely("LoadMast", func() error { var e error; wm, e = ww.NewRoot().LoadMast(core.Ctx, rc); return e }); err == nil {
			ok := true
			for _, ki := range sr.Model.Keys() {
				ki := ki
				if core.Safely("Insert", func() error { return wm.Insert(core.Ctx, ww.Pool[ki], ww.Cfg.MakeVal(sr.Model[ki])) }) != nil {
					ok = false
					break
				}
			}
			var r *mast.Root
			if ok && core.Safely("MakeRoot", func() error { var e error; r, e = wm.MakeRoot(core.Ctx); return e }) == nil && r != nil {
				if got, want := core.RootOf(*r).Link, core.RootOf(sr.Root).Link; got != want {
					return fmt.Errorf("[%s] the contents %s persisted by a writer opened without ValuesLike (registered types) got root name %q, under the ordinary configuration %q: the bytes are not a function of the entries alone", c.Cfg, ww.DescribeModel(sr.Model), got, want)
				}
				o.Label("writer-without-valueslike")
			}
		}
	}
	o.NonTrivial = restoredSame >= 1 && m.Ev.Persists >= 2
	labelCfg(o, c.Cfg)
	if restoredSame > 0 {
		o.Label("same-node-content-written-again")
	}
	o.Labelf("maxheight=%d", m.Ev.MaxHeight)
	return nil
}

func init() {
	run.Register(run.Prop[HistCase]{
		ID:    "C08",
		Level: "exploration",
		Rule: "case = configuration (all key/value types incl. float64 values with both zeros, both formats, default and custom marshaler, all caches) + fill + program of <=60/120 ops over 3 slots; EVERY Store(name, bytes) call seen by the recording store is checked: name == unpadded URL-safe base64 of an independently implemented BLAKE2b-256 of the bytes; the bytes decode with the reference decoder and re-encode byte-identically with the reference encoder (so they are a function of entries + child names only); one content -> one name; one name -> one byte string; equal root names across persisted versions => equal model contents (hence different contents => different names); the last version is persisted again by a writer opened WITHOUT ValuesLike (registered types) and must get the same root name. " +
			"Non-trivial = the history persisted at least twice AND some node content was written at least twice (reached by different routes); distinct by case hash",
		Assumptions: []string{"BLAKE2b-256, base64 and both node encoders are re-implemented in harness/ref (RFC 7693 test vector checked in C14)"},
		Gen:         genC08,
		Run:         runC08,
		Enumerate:   enumWide,
	})
}
