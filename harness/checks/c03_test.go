package checks

import (
	"context"
	"errors"
	"fmt"
	"sync"
	"time"

	"github.com/jrhy/mast"
	s3persist "github.com/jrhy/mast/persist/s3"
	"pgregory.net/rapid"
	"verif/harness/core"
	"verif/harness/env"
	"verif/harness/ref"
	"verif/harness/run"
)

// C03 — a successfully returned root is complete and durable in the store.

type C03Attempt struct {
	// CancelAt: the context given to MakeRoot is cancelled before the call (0) or when the k-th Store call
	// arrives (k>0); -1 / absent field value 0 with Cancel=false = never
	Cancel   bool       `json:"cancel,omitempty"`
	CancelAt int        `json:"cancel_at,omitempty"`
	Fates    []env.Fate `json:"fates,omitempty"` // by arrival index; missing = plain completion
	// FailAbove > 0: the store rejects a call that arrives while more than this many calls are in flight
	FailAbove int       `json:"fail_above,omitempty"`
	Ops       []core.Op `json:"ops,omitempty"` // operations applied after this attempt (the tree must stay usable)
}

type C03Case struct {
	// Big > 0: instead of the base history, a tree of Big consecutive int keys is built (many dirty nodes:
	// more than the 40 writes the flush keeps in flight)
	Big       int          `json:"big,omitempty"`
	Cfg       core.Config  `json:"cfg"`
	Base      []core.Op    `json:"base"`       // history (may persist/reload: creates a clean region)
	Attempts  []C03Attempt `json:"attempts"`   // successive MakeRoot calls under fate plans; a final fault-free attempt is always added
	Singles   bool         `json:"singles"`    // additionally enumerate every single failing arrival position of the first attempt
	TwoStores bool         `json:"two_stores"` // afterwards persist the same contents into a second store (different prefix) sharing the cache
	// ErrKind: what a failing Store call returns (index into env.FailErrKinds: a plain error, or one wrapping
	// context.Canceled / context.DeadlineExceeded / io.ErrUnexpectedEOF while the caller's context is alive)
	ErrKind int `json:"err_kind,omitempty"`
}

var c03Weights = core.OpWeights{
	core.OpInsert: 20, core.OpInsertNew: 30, core.OpDelete: 18, core.OpUpdate: 6, core.OpPersist: 3, core.OpReload: 2, core.OpClone: 1,
}

func genFates(t *rapid.T, n int, allowFail bool) []env.Fate {
	style := rapid.IntRange(0, 3).Draw(t, "fatestyle")
	out := make([]env.Fate, n)
	for i := range out {
		switch style {
		case 0: // plain
		case 1: // delays only
			out[i].Delay = rapid.IntRange(0, 3).Draw(t, "delay")
		case 2: // delays + stragglers
			out[i].Delay = rapid.IntRange(0, 3).Draw(t, "delay")
			out[i].Straggle = rapid.IntRange(0, 3).Draw(t, "straggle") == 0
		default:
			out[i].Delay = rapid.IntRange(0, 2).Draw(t, "delay")
		}
	}
	if allowFail && n > 0 {
		k := rapid.IntRange(0, 2).Draw(t, "nfail")
		for j := 0; j < k; j++ {
			out[rapid.IntRange(0, n-1).Draw(t, "failpos")].Fail = true
		}
	}
	return out
}

func genC03(t *rapid.T, tier string) C03Case {
	c := C03Case{Cfg: core.GenConfig(t, tier, core.GenOpts{
		Vals:   []string{core.VInt, core.VString},
		Caches: []string{"none", "none", "big", "arc", "tiny2"},
	})}
	pool := len(c.Cfg.Pool())
	c.Base = append(core.GenFill(t, pool, pool), core.GenProgram(t, c03Weights, 25, 1)...)
	na := rapid.IntRange(1, 3).Draw(t, "nattempts")
	for i := 0; i < na; i++ {
		a := C03Attempt{Fates: genFates(t, rapid.IntRange(0, 30).Draw(t, "nfates"), true)}
		if rapid.IntRange(0, 7).Draw(t, "throttle") == 0 {
			a.FailAbove = rapid.SampledFrom([]int{1, 2, 5, 40}).Draw(t, "failabove")
		}
		if rapid.IntRange(0, 5).Draw(t, "cancel") == 0 {
			a.Cancel = true
			a.CancelAt = rapid.IntRange(0, 6).Draw(t, "cancelat")
		}
		a.Ops = core.GenProgram(t, core.OpWeights{core.OpInsertNew: 3, core.OpDelete: 3, core.OpUpdate: 2, core.OpGet: 1, core.OpIter: 1}, 4, 1)
		c.Attempts = append(c.Attempts, a)
	}
	c.Singles = rapid.IntRange(0, 3).Draw(t, "singles") == 0
	c.TwoStores = rapid.IntRange(0, 3).Draw(t, "twostores") == 0
	c.ErrKind = rapid.SampledFrom([]int{0, 0, 0, 1, 2, 3}).Draw(t, "errkind")
	return c
}

type c03World struct {
	w         *core.World
	gate      *env.GatedStore
	t         *core.Tree
	failAbove int
}

func c03Build(c C03Case) (*c03World, bool) {
	w := core.NewWorld(c.Cfg)
	gate := env.NewGatedStore(w.Store)
	gate.FailErr = env.FailErrKinds[c.ErrKind%len(env.FailErrKinds)]
	// the tree stores through the gate from the start
	root := w.NewRoot()
	var m0 *mast.Mast
	if err := core.Safely("LoadMast", func() error { var e error; m0, e = root.LoadMast(core.Ctx, w.RemoteConfig(gate, w.Cache)); return e }); err != nil {
		return nil, false
	}
	mach := core.AdoptMachine(&core.Machine{W: w, Slots: []*core.Tree{{M: m0, Model: core.Model{}}}})
	if c.Big > 0 {
		w.Pool = make([]interface{}, c.Big+8)
		for i := range w.Pool {
			w.Pool[i] = i
		}
		for i := 0; i < c.Big; i++ {
			if err := w.Insert(mach.Slots[0], i, i%4); err != nil {
				return nil, false
			}
		}
		return &c03World{w: w, gate: gate, t: mach.Slots[0]}, true
	}
	// reloads inside the base history must also go through the gate
	for _, op := range c.Base {
		op.Slot = 0
		switch op.Kind {
		case core.OpReload, core.OpReloadJSON:
			if len(mach.Roots) == 0 {
				continue
			}
			sr := mach.Roots[op.N%len(mach.Roots)]
			lt, err := w.Load(sr, gate, w.Cache, false)
			if err != nil {
				return nil, false
			}
			mach.Slots[0] = lt
			continue
		}
		if err := mach.Step(op); err != nil && !errors.Is(err, core.ErrSkipped) {
			return nil, false
		}
	}
	return &c03World{w: w, gate: gate, t: mach.Slots[0]}, true
}

// attempt runs one MakeRoot under a fate plan and applies the oracle.
func (cw *c03World) attempt(fates []env.Fate, desc string, cancel ...int) (root *mast.Root, failed bool, reordered bool, err error) {
	cw.gate.Arm(fates)
	cw.gate.FailAbove = cw.failAbove
	defer func() { cw.gate.FailAbove = 0 }()
	ctx, cancelFn := context.WithCancel(context.Background())
	defer cancelFn()
	cw.gate.OnArrival = nil
	if len(cancel) > 0 {
		if cancel[0] <= 0 {
			cancelFn()
		} else {
			k := cancel[0]
			cw.gate.OnArrival = func(idx int) {
				if idx+1 == k {
					cancelFn()
				}
			}
		}
	}
	var mkErr error
	perr := core.Safely("MakeRoot", func() error { root, mkErr = cw.t.M.MakeRoot(ctx); return nil })
	cw.gate.OnArrival = nil
	inflight := cw.gate.InFlight()
	cw.gate.Release()
	if perr != nil {
		return nil, false, false, fmt.Errorf("%s: %w", desc, perr)
	}
	// let released stragglers finish before the store is inspected
	for i := 0; i < 2000 && cw.gate.InFlight() > 0; i++ {
		runtimeGosched()
	}
	comp := append([]int(nil), cw.gate.Completion...)
	for i := 1; i < len(comp); i++ {
		if comp[i] < comp[i-1] {
			reordered = true
		}
	}
	if mkErr != nil {
		if cw.gate.Failed == 0 && len(cancel) > 0 {
			// failing because the caller's context was cancelled is legitimate; the tree must stay usable
			return nil, true, reordered, nil
		}
		if cw.gate.Failed == 0 {
			// an error without an injected fault: not this property's statement (fault-free success is C01's)
			return nil, true, reordered, errAbort
		}
		return nil, true, reordered, nil
	}
	if cw.gate.Failed > 0 {
		return nil, false, reordered, fmt.Errorf("%s: %d Store call(s) returned an error but MakeRoot reported success", desc, cw.gate.Failed)
	}
	if inflight > 0 {
		return nil, false, reordered, fmt.Errorf("%s: MakeRoot returned success while %d Store call(s) were still in flight", desc, inflight)
	}
	if e := cw.complete(root, cw.w.Store, desc); e != nil {
		return nil, false, reordered, e
	}
	return root, false, reordered, nil
}

func (cw *c03World) complete(root *mast.Root, store *env.RecStore, desc string) error {
	link := ""
	if root.Link != nil {
		link = *root.Link
	}
	nodes, err := core.ReachableIn(cw.w.Cfg, link, store.Peek)
	if err != nil {
		return fmt.Errorf("%s: MakeRoot returned success but the version is not complete in the store: %w", desc, err)
	}
	for name := range nodes {
		b, _ := store.Peek(name)
		if ref.NodeName(b) != name {
			return fmt.Errorf("%s: node stored as %s holds bytes whose name is %s", desc, name, ref.NodeName(b))
		}
	}
	var n uint64
	for _, nd := range nodes {
		n += uint64(len(nd.Keys))
	}
	if n != uint64(len(cw.t.Model)) {
		return fmt.Errorf("%s: the stored version holds %d entries, the tree holds %d", desc, n, len(cw.t.Model))
	}
	return nil
}

func runC03(c C03Case, o *run.Obs) error {
	cw, ok := c03Build(c)
	if !ok {
		o.Label("aborted:base-failure")
		return nil
	}
	w := cw.w
	mach := core.AdoptMachine(&core.Machine{W: w, Slots: []*core.Tree{cw.t}})
	attempts := append(append([]C03Attempt(nil), c.Attempts...), C03Attempt{})
	sawReorder, failedThenOK, pendingFail := false, false, false
	maxInflight := 0
	for ai, a := range attempts {
		desc := fmt.Sprintf("[%s] attempt %d (%d fates)", c.Cfg, ai, len(a.Fates))
		var cancelArg []int
		if a.Cancel {
			cancelArg = []int{a.CancelAt}
			desc += fmt.Sprintf(", context cancelled at Store arrival %d", a.CancelAt)
		}
		cw.failAbove = a.FailAbove
		_, failed, reordered, err := cw.attempt(a.Fates, desc, cancelArg...)
		cw.failAbove = 0
		if err == errAbort {
			o.Label("aborted:base-failure")
			return nil
		}
		if err != nil {
			return err
		}
		if cw.gate.MaxInFlight > maxInflight {
			maxInflight = cw.gate.MaxInFlight
		}
		if reordered && cw.gate.Arrivals() >= 3 {
			sawReorder = true
		}
		if failed {
			pendingFail = true
			// the tree must stay fully usable
			if err := w.Check(cw.t); err != nil {
				return fmt.Errorf("%s: after the failed MakeRoot the tree is no longer usable / changed: %w", desc, err)
			}
		} else if pendingFail {
			failedThenOK = true
			pendingFail = false
		}
		for _, op := range a.Ops {
			op.Slot = 0
			if err := mach.Step(op); err != nil && !errors.Is(err, core.ErrSkipped) {
				if failed {
					return fmt.Errorf("%s: after the failed MakeRoot, %s no longer works: %w", desc, op, err)
				}
				o.Label("aborted:base-failure")
				return nil
			}
		}
		cw.t = mach.Slots[0]
	}
	// enumerate every single failing position of a flush of the same dirty tree
	singles := 0
	if c.Singles {
		probe, ok := c03Build(c)
		if ok {
			probe.gate.Arm(nil)
			if _, _, _, err := probe.attempt(nil, "dry run"); err == nil {
				n := probe.gate.Arrivals()
				if n > 0 && n <= 12 {
					for pos := 0; pos < n; pos++ {
						cw2, ok := c03Build(c)
						if !ok {
							break
						}
						fates := make([]env.Fate, n)
						fates[pos].Fail = true
						desc := fmt.Sprintf("[%s] single fault at Store arrival %d of %d", c.Cfg, pos, n)
						_, failed, _, err := cw2.attempt(fates, desc)
						if err != nil && err != errAbort {
							return err
						}
						if failed {
							if err := cw2.w.Check(cw2.t); err != nil {
								return fmt.Errorf("%s: tree unusable after the failed MakeRoot: %w", desc, err)
							}
							if _, f2, _, err := cw2.attempt(nil, desc+", retry without fault"); err != nil && err != errAbort {
								return err
							} else if f2 {
								return fmt.Errorf("%s: retry without any fault failed", desc)
							}
						}
						singles++
					}
				}
			}
		}
	}
	if c.TwoStores && w.Cache != nil {
		// same contents into a second store with another prefix, through the same cache
		storeB := env.NewRecStore("mem://other-container")
		var mb *mast.Mast
		if err := core.Safely("LoadMast", func() error {
			var e error
			mb, e = w.NewRoot().LoadMast(core.Ctx, w.RemoteConfig(storeB, w.Cache))
			return e
		}); err == nil {
			tb := &core.Tree{M: mb, Model: core.Model{}}
			okB := true
			for _, ki := range cw.t.Model.Keys() {
				if err := w.Insert(tb, ki, cw.t.Model[ki]); err != nil {
					okB = false
					break
				}
			}
			if okB {
				var rb *mast.Root
				var mkErr error
				if err := core.Safely("MakeRoot", func() error { rb, mkErr = mb.MakeRoot(core.Ctx); return nil }); err == nil && mkErr == nil {
					cwB := &c03World{w: w, t: tb}
					if err := cwB.complete(rb, storeB, fmt.Sprintf("[%s] second store with a different prefix sharing the node cache", c.Cfg)); err != nil {
						return err
					}
					o.Label("two-stores-one-cache")
				}
			}
		}
	}
	if c.TwoStores && w.Cache != nil {
		// the library's own in-memory stores: two instances are two different stores, whatever they report as their prefix
		cache, _ := core.MakeCache(c.Cfg.Cache)
		var roots []*mast.Root
		stores := []mast.Persist{mast.NewInMemoryStore(), mast.NewInMemoryStore()}
		what := "two in-memory stores"
		if len(c.Base)%2 == 1 {
			// or two S3 stores on one bucket whose object prefixes differ (also only by a trailing slash, an extra
			// slash, a suffix): different objects, hence different stores
			pairs := [][2]string{{"nodes/", "nodes"}, {"a/", "a//"}, {"", "x"}, {"p", "p-"}, {"v1/", "v2/"}}
			pr := pairs[(len(c.Base)/2)%len(pairs)]
			client := env.NewMiniS3()
			ep := []string{"https://s3.example", "https://s3.example/"}[(len(c.Base)/4)%2]
			sa := s3persist.NewPersist(client, ep, "bucket", pr[0])
			sb := s3persist.NewPersist(client, ep, "bucket", pr[1])
			stores = []mast.Persist{&sa, &sb}
			what = fmt.Sprintf("two S3 stores on one bucket with object prefixes %q and %q", pr[0], pr[1])
			if (len(c.Base)/8)%3 == 0 {
				// or two S3 services (different endpoints, each with a client of its own) that use the same bucket name and prefix
				sa = s3persist.NewPersist(env.NewMiniS3(), "https://s3.eu-west-1.example", "bucket", pr[0])
				sb = s3persist.NewPersist(env.NewMiniS3(), "https://s3.us-east-2.example", "bucket", pr[0])
				stores = []mast.Persist{&sa, &sb}
				what = fmt.Sprintf("two S3 stores on different endpoints with the same bucket and prefix %q", pr[0])
			}
		}
		for _, st := range stores {
			var m *mast.Mast
			if err := core.Safely("LoadMast", func() error {
				var e error
				m, e = w.NewRoot().LoadMast(core.Ctx, w.RemoteConfig(st, cache))
				return e
			}); err != nil {
				break
			}
			t := &core.Tree{M: m, Model: core.Model{}}
			ok := true
			for _, ki := range cw.t.Model.Keys() {
				if err := w.Insert(t, ki, cw.t.Model[ki]); err != nil {
					ok = false
					break
				}
			}
			if !ok {
				break
			}
			var r *mast.Root
			var mkErr error
			if err := core.Safely("MakeRoot", func() error { r, mkErr = m.MakeRoot(core.Ctx); return nil }); err != nil || mkErr != nil || r == nil {
				break
			}
			roots = append(roots, r)
		}
		if len(roots) == 2 {
			for i, st := range stores {
				st := st
				nodes, err := core.ReachableIn(c.Cfg, core.RootOf(*roots[i]).Link, func(name string) ([]byte, bool) {
					b, err := st.Load(core.Ctx, name)
					return b, err == nil
				})
				if err != nil {
					return fmt.Errorf("[%s] %s sharing one node cache, the same %d entries persisted into each: MakeRoot on store #%d returned success but the version is not complete in that store: %w", c.Cfg, what, len(cw.t.Model), i+1, err)
				}
				n := 0
				for _, nd := range nodes {
					n += len(nd.Keys)
				}
				if n != len(cw.t.Model) {
					return fmt.Errorf("[%s] %s sharing one node cache: store #%d reaches %d entries, the tree has %d", c.Cfg, what, i+1, n, len(cw.t.Model))
				}
			}
			if what == "two in-memory stores" {
				o.Label("two-library-in-memory-stores-one-cache")
			} else {
				o.Label("two-s3-stores-one-cache")
			}
		}
	}
	if c.TwoStores && len(cw.t.Model) > 0 {
		// an S3 service that keeps refusing some uploads (throttling, time-outs, internal errors, dropped connections - on every
		// attempt): whatever the store does about it, a MakeRoot that reports success has a complete version in the bucket
		client := env.NewMiniS3()
		var mu sync.Mutex
		order := map[string]int{}
		from, only := len(c.Base)%5, (len(c.Base)/5)%2 == 0
		perr := env.S3PutErrs[(len(c.Base)/10)%len(env.S3PutErrs)]
		client.FailPut = func(key string, attempt int) error {
			mu.Lock()
			defer mu.Unlock()
			i, ok := order[key]
			if !ok {
				i = len(order)
				order[key] = i
			}
			if i == from || (!only && i > from) {
				return perr
			}
			return nil
		}
		st := s3persist.NewPersist(client, "https://s3.example", "bucket", "n/")
		var m *mast.Mast
		if err := core.Safely("LoadMast", func() error {
			var e error
			m, e = w.NewRoot().LoadMast(core.Ctx, w.RemoteConfig(&st, nil))
			return e
		}); err == nil {
			t := &core.Tree{M: m, Model: core.Model{}}
			ok := true
			for _, ki := range cw.t.Model.Keys() {
				if err := w.Insert(t, ki, cw.t.Model[ki]); err != nil {
					ok = false
					break
				}
			}
			var r *mast.Root
			var mkErr error
			if ok && core.Safely("MakeRoot", func() error { r, mkErr = m.MakeRoot(core.Ctx); return nil }) == nil {
				if mkErr == nil && r != nil {
					if _, err := core.ReachableIn(c.Cfg, core.RootOf(*r).Link, func(name string) ([]byte, bool) {
						b, err := st.Load(core.Ctx, name)
						return b, err == nil
					}); err != nil {
						return fmt.Errorf("[%s] S3 store whose service refuses upload #%d%s on every attempt (%v): MakeRoot returned success but the version is not complete in the bucket: %w", c.Cfg, from, map[bool]string{true: "", false: " and all later ones"}[only], perr, err)
					}
					o.Label("s3-refusing-uploads:success-and-complete")
				} else {
					o.Label("s3-refusing-uploads:reported")
				}
			}
		}
	}
	if c.TwoStores && len(cw.t.Model) > 0 {
		// twin flushes: two clones get the same changes (hence identical unsaved nodes) and are persisted at the same
		// time into the same store; the FIRST write of one of the shared new nodes to arrive is held until the other
		// flush's write of that node arrives too (or a moment has passed) and then fails. Whichever MakeRoot reports
		// success must have a complete version in the store.
		t1, e1 := w.Clone(cw.t)
		t2, e2 := w.Clone(cw.t)
		if e1 == nil && e2 == nil {
			ok := true
			for _, t := range []*core.Tree{t1, t2} {
				for j := 0; j < 3 && ok; j++ {
					if ki, found := core.AbsentKey(t.Model, len(w.Pool), len(c.Base)*3+j*5); found {
						ok = w.Insert(t, ki, j+1) == nil
					}
				}
				if pk, found := core.PresentKey(t.Model, len(c.Base)); found && ok {
					ok = w.Insert(t, pk, t.Model[pk]+1) == nil
				}
			}
			if ok {
				var mu sync.Mutex
				seen := map[string]int{}
				victim := ""
				second := make(chan struct{})
				nth := len(c.Base) % 3
				cw.gate.Arm(nil)
				cw.gate.NameHook = func(name string) bool {
					mu.Lock()
					seen[name]++
					if victim == "" && len(seen) == nth+1 && seen[name] == 1 {
						victim = name
						mu.Unlock()
						select {
						case <-second:
						case <-time.After(20 * time.Millisecond):
						}
						return true
					}
					if name == victim && seen[name] == 2 {
						close(second)
					}
					mu.Unlock()
					return false
				}
				type res struct {
					root *mast.Root
					err  error
				}
				out := make([]res, 2)
				var wg sync.WaitGroup
				for i, t := range []*core.Tree{t1, t2} {
					wg.Add(1)
					go func(i int, t *core.Tree) {
						defer wg.Done()
						_ = core.Safely("MakeRoot", func() error { out[i].root, out[i].err = t.M.MakeRoot(core.Ctx); return nil })
					}(i, t)
				}
				wg.Wait()
				cw.gate.NameHook = nil
				for i, t := range []*core.Tree{t1, t2} {
					if out[i].err == nil && out[i].root != nil {
						cwt := &c03World{w: w, t: t}
						if err := cwt.complete(out[i].root, w.Store, fmt.Sprintf("[%s] two clones with identical unsaved nodes persisted concurrently, the first write of one shared new node failed: MakeRoot #%d", c.Cfg, i+1)); err != nil {
							return err
						}
					}
				}
				o.Label("twin-flushes-with-one-failing-write")
			}
		}
	}
	o.NonTrivial = sawReorder || failedThenOK
	labelCfg(o, c.Cfg)
	if sawReorder {
		o.Label("completion-order-differs-from-issue-order")
	}
	if failedThenOK {
		o.Label("failure-then-successful-retry")
	}
	if singles > 0 {
		o.Label("single-fault-positions-enumerated")
		run.AddExtra("single_fault_positions_enumerated", singles)
	}
	o.Labelf("max-inflight=%d", min(maxInflight/5*5, 40))
	return nil
}

// enumC03: flushes with far more than 40 dirty nodes whose first 40 writes are held in flight
// (stragglers) while a later arrival fails: the flush's 40-slot gate is saturated.
func enumC03(tier string, shard, nshards int, yield func(C03Case) bool) (bool, string) {
	sizes := []int{150, 400}
	if tier == "thorough" {
		sizes = []int{150, 400, 1500}
	}
	i := 0
	for _, bf := range []uint{2, 4} {
		for _, n := range sizes {
			for _, failAt := range []int{40, 41, 44, 60, -1, -2} {
				for _, hold := range []int{40, 45} {
					i++
					if i%nshards != shard {
						continue
					}
					fates := make([]env.Fate, 70)
					for j := 0; j < hold && j < len(fates); j++ {
						fates[j].Straggle = true
					}
					if failAt >= 0 {
						fates[failAt].Fail = true
					}
					att := C03Attempt{Fates: fates}
					if failAt == -2 {
						att.FailAbove = 40 // a throttling store: more than 40 concurrent requests are rejected
					}
					cfg := core.Config{BF: bf, Format: ref.FormatBinary, Key: core.KInt, Val: core.VInt, Cache: "none", Marshaler: "json"}
					if !yield(C03Case{Big: n, Cfg: cfg, Attempts: []C03Attempt{att}}) {
						return false, ""
					}
				}
			}
		}
	}
	// a throttling store (rejects any call that arrives while more than 40 are in flight): whether an overflow
	// happens at all depends on the schedule, so this variant is repeated with different numbers of held writes
	for _, bf := range []uint{2, 4} {
		for _, n := range sizes[:2] {
			for _, hold := range []int{40, 41, 43, 45, 50, 60, 70} {
				reps := 3
				if hold <= 41 {
					reps = 14 // the overflow needs the dispatcher to outrun the last worker: many tries
				}
				for rep := 0; rep < reps; rep++ {
					i++
					if i%nshards != shard {
						continue
					}
					fates := make([]env.Fate, 80)
					for j := 0; j < hold; j++ {
						fates[j].Straggle = true
						fates[j].Delay = (j + rep) % 3
					}
					cfg := core.Config{BF: bf, Format: ref.FormatBinary, Key: core.KInt, Val: core.VInt, Cache: "none", Marshaler: "json"}
					if !yield(C03Case{Big: n + rep, Cfg: cfg, Attempts: []C03Attempt{{Fates: fates, FailAbove: 40}}}) {
						return false, ""
					}
				}
			}
		}
	}
	return false, "saturating flushes: trees of 150-400 (thorough 1500) int keys at bf 2 and 4 (50-400 dirty nodes), the first 40 or 45 arriving Store calls held in flight, a failure at arrival 40/41/44/60, none, or a store that rejects any call arriving while more than 40 are in flight; then a fault-free retry"
}

func init() {
	run.Register(run.Prop[C03Case]{
		ID:    "C03",
		Level: "fault_enumeration",
		Rule: "case = configuration + history producing a tree with a dirty region (optionally over a persisted clean region) + 1-3 MakeRoot attempts, each under a generated plan assigning to the i-th arriving Store call a fate {delay class 0-3, hold as straggler until MakeRoot has returned or 5 ms, fail}, with operations in between, always ending with a fault-free attempt; for a quarter of the cases every single failing arrival position of the first flush is additionally enumerated (<=12 writes) with a fault-free retry; a quarter re-persist the same contents into a second store with another prefix through the same cache, into two of the library's in-memory stores, into two S3 stores with different prefixes on one service and into two S3 services (different endpoints) with the same bucket and prefix, each pair behind one node cache; into an S3 service that refuses one upload (or that one and all later ones) on every attempt with plain and AWS-style retryable errors; and run twin flushes of identical unsaved nodes with the first shared write failing. Oracle: on success no Store call in flight at return (atomic counter), every node reachable from the returned root is in the store under the name of its own bytes and the entry count matches; any failed Store => MakeRoot returns an error; after an error contents/Size/Get/Iter/Insert/Delete still agree with the model. " +
			"Non-trivial = >=3 concurrent writes completed in an order different from their arrival order, OR a failed attempt followed by a successful one; distinct by case hash",
		Assumptions: []string{"delays only shape the schedule; no timing enters a verdict (the 5 ms straggler guard only bounds how long correct code is made to wait)", "completion orders are sampled, not enumerated"},
		Gen:         genC03,
		Run:         runC03,
		Enumerate:   enumC03,
	})
}
