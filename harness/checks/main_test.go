package checks

import (
	"testing"

	"verif/harness/run"
)

// TestProp runs the property named by VERIF_PROP (see /verif/check).
func TestProp(t *testing.T) { run.Main(t) }
