package checks

import (
	"bytes"
	"encoding/base64"
	"encoding/hex"
	"encoding/json"
	"fmt"
	"os"
	"path/filepath"
	"reflect"
	"sort"
	"testing"

	"github.com/jrhy/mast"
	"pgregory.net/rapid"
	"verif/harness/core"
	"verif/harness/ref"
	"verif/harness/run"
)

// C14 — serialized format, hashing inputs, key order and layers are stable.

// KeySpec is a typed key written so that it survives JSON.
type KeySpec struct {
	T string `json:"t"` // int int8 int16 int32 int64 uint uint8 uint16 uint32 uint64 string bytes struct
	I int64  `json:"i,omitempty"`
	U uint64 `json:"u,omitempty"`
	S string `json:"s,omitempty"` // string payload; base64 for bytes
}

func (k KeySpec) Value() interface{} {
	switch k.T {
	case "int":
		return int(k.I)
	case "int8":
		return int8(k.I)
	case "int16":
		return int16(k.I)
	case "int32":
		return int32(k.I)
	case "int64":
		return k.I
	case "uint":
		return uint(k.U)
	case "uint8":
		return uint8(k.U)
	case "uint16":
		return uint16(k.U)
	case "uint32":
		return uint32(k.U)
	case "uint64":
		return k.U
	case "string":
		return k.S
	case "bytes":
		b, _ := base64.StdEncoding.DecodeString(k.S)
		if b == nil {
			b = []byte{}
		}
		return b
	case "struct":
		return core.SK{A: int(k.I), B: k.S}
	}
	panic("bad key spec type " + k.T)
}

type C14Case struct {
	Mode   string    `json:"mode"` // layer | compare | golden
	A      KeySpec   `json:"a"`
	B      KeySpec   `json:"b"`
	BF     uint      `json:"bf,omitempty"`
	Golden string    `json:"golden,omitempty"` // section:index of the golden file
	Tree   *HistCase `json:"tree,omitempty"`   // mode "tree": a generated history whose persisted nodes are compared with the reference encoder
}

var intTypes = []string{"int", "int8", "int16", "int32", "int64"}
var uintTypes = []string{"uint", "uint8", "uint16", "uint32", "uint64"}

func genKeySpec(t *rapid.T, typ string, bf uint) KeySpec {
	k := KeySpec{T: typ}
	bits := map[string]uint{"int": 64, "int8": 8, "int16": 16, "int32": 32, "int64": 64, "uint": 64, "uint8": 8, "uint16": 16, "uint32": 32, "uint64": 64}[typ]
	switch {
	case bits > 0:
		// mix of small numbers, multiples of powers of bf, and extremes
		var u uint64
		switch rapid.IntRange(0, 3).Draw(t, "numstyle") {
		case 0:
			u = uint64(rapid.IntRange(0, 300).Draw(t, "small"))
		case 1:
			e := rapid.IntRange(1, 12).Draw(t, "exp")
			p := uint64(1)
			for i := 0; i < e && p < (uint64(1)<<(bits-1))/uint64(bf); i++ {
				p *= uint64(bf)
			}
			u = p * uint64(rapid.IntRange(1, 9).Draw(t, "mult"))
		case 2:
			u = rapid.Uint64().Draw(t, "any")
		default:
			u = rapid.SampledFrom([]uint64{0, 1, 1<<63 - 1, 1 << 63, ^uint64(0), 1<<53 + 1}).Draw(t, "extreme")
		}
		if typ[0] == 'u' {
			if bits < 64 {
				u &= (1 << bits) - 1
			}
			k.U = u
		} else {
			i := int64(u)
			if bits < 64 {
				i = i << (64 - bits) >> (64 - bits)
			}
			if rapid.Bool().Draw(t, "neg") && i != -1<<63 {
				i = -i
			}
			if bits < 64 {
				i = i << (64 - bits) >> (64 - bits)
			}
			k.I = i
		}
	case typ == "string":
		k.S = rapid.OneOf(rapid.StringN(0, 12, 24), rapid.StringMatching(`k[0-9]{1,4}`), rapid.Just("")).Draw(t, "s")
	case typ == "bytes":
		k.S = base64.StdEncoding.EncodeToString(rapid.SliceOfN(rapid.Byte(), 0, 12).Draw(t, "b"))
	case typ == "struct":
		k.I = int64(rapid.IntRange(-3, 9).Draw(t, "a"))
		k.S = rapid.StringMatching(`b[0-9]{0,3}`).Draw(t, "bs")
	}
	return k
}

var allKeyTypes = append(append(append([]string{}, intTypes...), uintTypes...), "string", "bytes", "struct")

func genC14(t *rapid.T, tier string) C14Case {
	c := C14Case{Mode: rapid.SampledFrom([]string{"layer", "layer", "layer", "compare", "compare", "tree"}).Draw(t, "mode")}
	if c.Mode == "tree" {
		h := genHist(t, tier, core.GenOpts{NoCustomV1: true, Caches: []string{"none", "big"}, BigOneIn: 15, NoReversed: true},
			core.OpWeights{core.OpInsert: 10, core.OpInsertNew: 20, core.OpUpdate: 5, core.OpDelete: 10, core.OpPersist: 6, core.OpReload: 2}, 25, 40, 30, 1)
		c.Tree = &h
		return c
	}
	c.BF = rapid.SampledFrom([]uint{2, 3, 4, 5, 7, 10, 16, 64, 255}).Draw(t, "bf")
	ta := rapid.SampledFrom(allKeyTypes).Draw(t, "ta")
	c.A = genKeySpec(t, ta, c.BF)
	if c.Mode == "compare" {
		tb := ta
		if rapid.IntRange(0, 5).Draw(t, "mixed") == 0 {
			tb = rapid.SampledFrom(allKeyTypes).Draw(t, "tb")
		}
		c.B = genKeySpec(t, tb, c.BF)
		if rapid.IntRange(0, 4).Draw(t, "equal") == 0 && ta == tb {
			c.B = c.A
		}
	}
	return c
}

// ---- golden vectors -----------------------------------------------------------

type goldenTree struct {
	Cfg     core.Config       `json:"cfg"`
	Keys    []int             `json:"keys"`    // pool indices inserted in this order
	Entries [][2]string       `json:"entries"` // marshaled key, marshaled value in ascending key order
	Root    mast.Root         `json:"root"`
	Nodes   map[string]string `json:"nodes"` // name -> base64(bytes)
}

type goldenLayers struct {
	BF     uint      `json:"bf"`
	Keys   []KeySpec `json:"keys"`
	Layers []uint8   `json:"layers"`
}

type goldenCompare struct {
	A, B KeySpec
	Cmp  int  `json:"cmp"`
	Err  bool `json:"err"`
}

type goldenFile struct {
	Note     string      `json:"note"`
	Blake2b  [][2]string `json:"blake2b"` // input (hex), digest name
	Defaults struct {
		NewRootNil mast.Root `json:"new_root_nil"`
		InMemoryBF uint      `json:"in_memory_branch_factor"`
		DefaultBF  int       `json:"default_branch_factor_const"`
		V1, Bin    string
	} `json:"defaults"`
	Layers   []goldenLayers  `json:"layers"`
	Compares []goldenCompare `json:"compares"`
	Trees    []goldenTree    `json:"trees"`
}

func goldenPath() string {
	d := os.Getenv("VERIF_DIR")
	if d == "" {
		d = "/verif"
	}
	return filepath.Join(d, "golden", "vectors.json")
}

var goldenCache *goldenFile

func loadGolden() (*goldenFile, error) {
	if goldenCache != nil {
		return goldenCache, nil
	}
	b, err := os.ReadFile(goldenPath())
	if err != nil {
		return nil, err
	}
	var g goldenFile
	if err := json.Unmarshal(b, &g); err != nil {
		return nil, err
	}
	goldenCache = &g
	return &g, nil
}

func goldenKeySpecs() []KeySpec {
	var out []KeySpec
	nums := []int64{0, 1, 2, 3, 4, 5, 6, 7, 8, 9, 10, 12, 15, 16, 17, 27, 32, 49, 63, 64, 81, 100, 125, 127}
	for _, n := range nums {
		for _, t := range intTypes {
			out = append(out, KeySpec{T: t, I: n}, KeySpec{T: t, I: -n})
		}
		for _, t := range uintTypes {
			out = append(out, KeySpec{T: t, U: uint64(n)})
		}
	}
	for _, n := range []int64{128, 256, 343, 512, 625, 1024, 4096, 65536, 1 << 20, 16777216, 1 << 40, 1<<53 + 1, 1 << 62, 1<<63 - 1, -1 << 63} {
		out = append(out, KeySpec{T: "int64", I: n}, KeySpec{T: "int", I: n})
		if n > 0 {
			out = append(out, KeySpec{T: "uint64", U: uint64(n)}, KeySpec{T: "uint", U: uint64(n)})
		}
	}
	out = append(out, KeySpec{T: "uint64", U: 1 << 63}, KeySpec{T: "uint64", U: ^uint64(0)}, KeySpec{T: "uint32", U: 1 << 31}, KeySpec{T: "int32", I: -1 << 31}, KeySpec{T: "int16", I: -1 << 15})
	for i := 0; i < 150; i++ {
		out = append(out, KeySpec{T: "string", S: fmt.Sprintf("k%d", i)})
		out = append(out, KeySpec{T: "bytes", S: base64.StdEncoding.EncodeToString([]byte{byte(i), byte(i * 7), 0xff})})
		out = append(out, KeySpec{T: "struct", I: int64(i % 5), S: fmt.Sprintf("b%d", i)})
	}
	out = append(out, KeySpec{T: "string", S: ""}, KeySpec{T: "string", S: "héllo wörld ☃"}, KeySpec{T: "string", S: "<&>\"'"}, KeySpec{T: "bytes", S: ""})
	return out
}

var goldenBFs = []uint{2, 3, 4, 7, 16, 64}

func goldenTreeConfigs() []core.Config {
	var out []core.Config
	for _, f := range core.Formats {
		for _, k := range []string{core.KInt, core.KInt64, core.KUint, core.KUint64, core.KString, core.KBytes, core.KStruct} {
			for _, bf := range []uint{2, 4, 16} {
				v := core.VString
				if k == core.KString {
					v = core.VStruct
				} else if k == core.KBytes {
					v = core.VBytes
				} else if k == core.KUint64 {
					v = core.VInt
				}
				out = append(out, core.Config{BF: bf, Format: f, Key: k, Val: v, Cache: "none", Marshaler: "json"})
			}
		}
	}
	return out
}

// buildGoldenTree inserts a fixed selection of pool keys and records everything stored.
func buildGoldenTree(cfg core.Config, n int) (*goldenTree, error) {
	w := core.NewWorld(cfg)
	t, err := w.NewTree()
	if err != nil {
		return nil, err
	}
	g := &goldenTree{Cfg: cfg, Nodes: map[string]string{}}
	for i := 0; i < n && i < len(w.Pool); i++ {
		ki := (i * 7) % len(w.Pool)
		if _, dup := t.Model[ki]; dup {
			continue
		}
		if err := w.Insert(t, ki, ki%4); err != nil {
			return nil, err
		}
		g.Keys = append(g.Keys, ki)
	}
	sr, err := w.Persist(t)
	if err != nil {
		return nil, err
	}
	g.Root = sr.Root
	for _, e := range w.RefEntries(t.Model) {
		g.Entries = append(g.Entries, [2]string{string(e.Key), string(e.Value)})
	}
	for name, b := range w.Store.Snapshot() {
		g.Nodes[name] = base64.StdEncoding.EncodeToString(b)
	}
	return g, nil
}

var goldenTreeSizes = []int{1, 2, 3, 5, 9, 17, 40}

// TestWriteGolden regenerates golden/vectors.json from the tree under test.
// It is only run by hand (VERIF_GOLDEN_WRITE=1) against the pinned commit.
func TestWriteGolden(t *testing.T) {
	if os.Getenv("VERIF_GOLDEN_WRITE") == "" {
		t.Skip("set VERIF_GOLDEN_WRITE=1 to regenerate the golden vectors")
	}
	var g goldenFile
	g.Note = "Reference vectors for C14, generated once from jrhy/mast @ 5b9555e (the pinned commit) and cross-checked against the harness' independent reference at generation time. Do not regenerate from a modified tree."
	for _, in := range []string{"", "abc", "The quick brown fox jumps over the lazy dog"} {
		g.Blake2b = append(g.Blake2b, [2]string{hex.EncodeToString([]byte(in)), ref.NodeName([]byte(in))})
	}
	g.Defaults.NewRootNil = *mast.NewRoot(nil)
	im := mast.NewInMemory()
	g.Defaults.InMemoryBF = im.BranchFactor()
	g.Defaults.DefaultBF = mast.DefaultBranchFactor
	g.Defaults.V1, g.Defaults.Bin = string(mast.V1Marshaler), string(mast.V115Binary)
	layer := mast.DefaultLayer(json.Marshal)
	cmp := mast.DefaultKeyCompare(json.Marshal)
	specs := goldenKeySpecs()
	for _, bf := range goldenBFs {
		gl := goldenLayers{BF: bf, Keys: specs}
		for _, k := range specs {
			l, err := layer(k.Value(), bf)
			if err != nil {
				t.Fatal(err)
			}
			rl, _ := ref.Layer(k.Value(), bf, json.Marshal)
			if rl != l {
				t.Fatalf("reference layer %d != mast layer %d for %+v bf=%d", rl, l, k, bf)
			}
			gl.Layers = append(gl.Layers, l)
		}
		g.Layers = append(g.Layers, gl)
	}
	for i := 0; i < len(specs); i += 3 {
		for _, j := range []int{i, (i + 1) % len(specs), (i*31 + 7) % len(specs), (i + 5) % len(specs)} {
			a, b := specs[i], specs[j]
			c, err := cmp(a.Value(), b.Value())
			gc := goldenCompare{A: a, B: b, Cmp: c, Err: err != nil}
			if err != nil {
				gc.Cmp = 0
			}
			rc, rerr := ref.Compare(a.Value(), b.Value(), json.Marshal)
			if (rerr != nil) != gc.Err || (rerr == nil && sign(rc) != sign(c)) {
				t.Fatalf("reference compare (%d,%v) != mast (%d,%v) for %+v vs %+v", rc, rerr, c, err, a, b)
			}
			g.Compares = append(g.Compares, gc)
		}
	}
	for _, cfg := range goldenTreeConfigs() {
		for _, n := range goldenTreeSizes {
			gt, err := buildGoldenTree(cfg, n)
			if err != nil {
				t.Fatal(err)
			}
			// cross-check with the reference builder
			w := core.NewWorld(cfg)
			model := core.Model{}
			for _, ki := range gt.Keys {
				model[ki] = ki % 4
			}
			want, nodes := w.RefRoot(model)
			if core.RootOf(gt.Root) != want {
				t.Fatalf("reference root %+v != mast root %+v for %s n=%d", want, core.RootOf(gt.Root), cfg, n)
			}
			for name, b := range nodes {
				if gt.Nodes[name] != base64.StdEncoding.EncodeToString(b) {
					t.Fatalf("reference node %s differs for %s n=%d", name, cfg, n)
				}
			}
			g.Trees = append(g.Trees, *gt)
		}
	}
	b, _ := json.MarshalIndent(g, "", " ")
	os.MkdirAll(filepath.Dir(goldenPath()), 0o755)
	if err := os.WriteFile(goldenPath(), b, 0o644); err != nil {
		t.Fatal(err)
	}
	t.Logf("wrote %s: %d layer tables x %d keys, %d compares, %d trees", goldenPath(), len(g.Layers), len(specs), len(g.Compares), len(g.Trees))
}

func sign(x int) int {
	if x < 0 {
		return -1
	} else if x > 0 {
		return 1
	}
	return 0
}

func enumC14(tier string, shard, nshards int, yield func(C14Case) bool) (bool, string) {
	g, err := loadGolden()
	if err != nil {
		panic(fmt.Errorf("golden vectors missing: %w", err))
	}
	var ids []string
	ids = append(ids, "blake2b:0", "defaults:0")
	for i := range g.Layers {
		ids = append(ids, fmt.Sprintf("layers:%d", i))
	}
	for i := 0; i < len(g.Compares); i += 50 {
		ids = append(ids, fmt.Sprintf("compares:%d", i))
	}
	for i := range g.Trees {
		ids = append(ids, fmt.Sprintf("trees:%d", i))
	}
	for i, id := range ids {
		if i%nshards != shard {
			continue
		}
		if !yield(C14Case{Mode: "golden", Golden: id}) {
			return false, ""
		}
	}
	return true, fmt.Sprintf("all %d golden vector groups (frozen from the pinned commit): BLAKE2b names, NewRoot/NewInMemory defaults, %d layer tables x %d keys, %d compare results, %d persisted trees (7 key types x 2 formats x bf 2/4/16 x 7 sizes) rebuilt byte for byte and re-loaded from the frozen bytes", len(ids), len(g.Layers), len(g.Layers[0].Keys), len(g.Compares), len(g.Trees))
}

func runGolden(id string, o *run.Obs) error {
	g, err := loadGolden()
	if err != nil {
		return err
	}
	var sec string
	var idx int
	fmt.Sscanf(id, "%[a-z0-9]:%d", &sec, &idx)
	for i := 0; i < len(id); i++ {
		if id[i] == ':' {
			sec = id[:i]
			fmt.Sscanf(id[i+1:], "%d", &idx)
		}
	}
	layer := mast.DefaultLayer(json.Marshal)
	cmp := mast.DefaultKeyCompare(json.Marshal)
	o.Labelf("golden=%s", sec)
	switch sec {
	case "blake2b":
		for _, v := range g.Blake2b {
			in, _ := hex.DecodeString(v[0])
			if got := ref.NodeName(in); got != v[1] {
				return fmt.Errorf("harness BLAKE2b self-test: name of %q is %s, frozen %s", in, got, v[1])
			}
		}
		// known BLAKE2b-256 digests
		d := ref.Blake2b256([]byte("abc"))
		if hex.EncodeToString(d[:]) != "bddd813c634239723171ef3fee98579b94964e3bb1cb3e427262c8c068d52319" {
			return fmt.Errorf("harness BLAKE2b-256(\"abc\") self-test failed")
		}
	case "defaults":
		if got := *mast.NewRoot(nil); !reflect.DeepEqual(got, g.Defaults.NewRootNil) {
			return fmt.Errorf("NewRoot(nil) = %+v, published defaults are %+v", got, g.Defaults.NewRootNil)
		}
		if got := *mast.NewRoot(&mast.CreateRemoteOptions{}); !reflect.DeepEqual(got, g.Defaults.NewRootNil) {
			return fmt.Errorf("NewRoot(&CreateRemoteOptions{}) = %+v, published defaults are %+v", got, g.Defaults.NewRootNil)
		}
		if g.Defaults.NewRootNil.BranchFactor != 16 || g.Defaults.NewRootNil.NodeFormat != ref.FormatBinary {
			return fmt.Errorf("golden defaults are not bf 16 / compact binary")
		}
		im := mast.NewInMemory()
		if im.BranchFactor() != g.Defaults.InMemoryBF || mast.DefaultBranchFactor != g.Defaults.DefaultBF {
			return fmt.Errorf("NewInMemory branch factor %d / DefaultBranchFactor %d, published %d / %d", im.BranchFactor(), mast.DefaultBranchFactor, g.Defaults.InMemoryBF, g.Defaults.DefaultBF)
		}
		if string(mast.V1Marshaler) != g.Defaults.V1 || string(mast.V115Binary) != g.Defaults.Bin {
			return fmt.Errorf("node format names changed: %q %q", mast.V1Marshaler, mast.V115Binary)
		}
		// a tree created with defaults persists in the default format with bf 16
		w := core.NewWorld(core.Config{BF: 16, Format: ref.FormatBinary, Key: core.KInt, Val: core.VInt, Cache: "none", Marshaler: "json"})
		m, err := mast.NewRoot(nil).LoadMast(core.Ctx, w.RemoteConfig(w.Store, nil))
		if err != nil {
			return fmt.Errorf("LoadMast of NewRoot(nil): %w", err)
		}
		if err := m.Insert(core.Ctx, 1, 1); err != nil {
			return err
		}
		r, err := m.MakeRoot(core.Ctx)
		if err != nil {
			return err
		}
		if r.BranchFactor != 16 || r.NodeFormat != ref.FormatBinary {
			return fmt.Errorf("tree from NewRoot(nil) persisted as bf=%d format=%q", r.BranchFactor, r.NodeFormat)
		}
	case "layers":
		gl := g.Layers[idx]
		for i, k := range gl.Keys {
			got, err := layer(k.Value(), gl.BF)
			if err != nil || got != gl.Layers[i] {
				return fmt.Errorf("DefaultLayer(%#v, bf=%d) = %d,%v; the published layer is %d", k.Value(), gl.BF, got, err, gl.Layers[i])
			}
		}
	case "compares":
		for i := idx; i < idx+50 && i < len(g.Compares); i++ {
			gc := g.Compares[i]
			got, err := cmp(gc.A.Value(), gc.B.Value())
			if (err != nil) != gc.Err || (err == nil && sign(got) != sign(gc.Cmp)) {
				return fmt.Errorf("DefaultKeyCompare(%#v, %#v) = %d,%v; published result %d (error=%v)", gc.A.Value(), gc.B.Value(), got, err, gc.Cmp, gc.Err)
			}
		}
	case "trees":
		gt := g.Trees[idx]
		now, err := buildGoldenTree(gt.Cfg, 1<<30)
		_ = now
		// rebuild with exactly the golden insertion sequence
		w := core.NewWorld(gt.Cfg)
		t, err := w.NewTree()
		if err != nil {
			return err
		}
		for _, ki := range gt.Keys {
			if err := w.Insert(t, ki, ki%4); err != nil {
				return fmt.Errorf("golden tree %d: %w", idx, err)
			}
		}
		sr, err := w.Persist(t)
		if err != nil {
			return fmt.Errorf("golden tree %d: %w", idx, err)
		}
		if !reflect.DeepEqual(sr.Root, gt.Root) {
			return fmt.Errorf("golden tree %d [%s, %d keys]: root is now %s, frozen root is %s", idx, gt.Cfg, len(gt.Keys), rootStr(sr.Root), rootStr(gt.Root))
		}
		snap := w.Store.Snapshot()
		if len(snap) != len(gt.Nodes) {
			return fmt.Errorf("golden tree %d [%s]: %d nodes stored, frozen %d", idx, gt.Cfg, len(snap), len(gt.Nodes))
		}
		for name, b := range snap {
			want, _ := base64.StdEncoding.DecodeString(gt.Nodes[name])
			if !bytes.Equal(b, want) {
				return fmt.Errorf("golden tree %d [%s]: node %s bytes differ from the frozen bytes:\n now    %q\n frozen %q", idx, gt.Cfg, name, b, want)
			}
		}
		// trees written by earlier releases load unchanged: only the frozen bytes in a fresh store
		w2 := core.NewWorld(gt.Cfg)
		for name, b64 := range gt.Nodes {
			b, _ := base64.StdEncoding.DecodeString(b64)
			w2.Store.Put(name, b)
		}
		model := core.Model{}
		for _, ki := range gt.Keys {
			model[ki] = ki % 4
		}
		lt, err := w2.Load(&core.SavedRoot{Root: gt.Root, Model: model}, nil, nil, true)
		if err != nil {
			return fmt.Errorf("golden tree %d [%s]: frozen root no longer loads: %w", idx, gt.Cfg, err)
		}
		if err := w2.CompareContents(lt.M, model); err != nil {
			return fmt.Errorf("golden tree %d [%s]: frozen bytes load with different contents: %w", idx, gt.Cfg, err)
		}
		got := w2.RefEntries(model)
		if len(got) != len(gt.Entries) {
			return fmt.Errorf("golden tree %d: harness pool drifted (entries %d vs %d)", idx, len(got), len(gt.Entries))
		}
		for i := range got {
			if string(got[i].Key) != gt.Entries[i][0] || string(got[i].Value) != gt.Entries[i][1] {
				return fmt.Errorf("golden tree %d: harness pool drifted at entry %d", idx, i)
			}
		}
		mixed := false
		for _, b64 := range gt.Nodes {
			b, _ := base64.StdEncoding.DecodeString(b64)
			if n, err := gt.Cfg.DecodeNode(b); err == nil && len(n.Keys) >= 2 && n.HasChild() {
				for _, l := range n.Links {
					if l == "" {
						mixed = true
					}
				}
			}
		}
		o.NonTrivial = mixed
	}
	if sec != "trees" {
		o.NonTrivial = true
	}
	return nil
}

func rootStr(r mast.Root) string {
	l := "<nil>"
	if r.Link != nil {
		l = *r.Link
	}
	return fmt.Sprintf("{Link:%s Size:%d Height:%d BF:%d Format:%s}", l, r.Size, r.Height, r.BranchFactor, r.NodeFormat)
}

func runC14(c C14Case, o *run.Obs) error {
	if c.Mode == "golden" {
		return runGolden(c.Golden, o)
	}
	if c.Mode == "tree" && c.Tree != nil {
		return runC14Tree(*c.Tree, o)
	}
	layer := mast.DefaultLayer(json.Marshal)
	cmp := mast.DefaultKeyCompare(json.Marshal)
	a := c.A.Value()
	o.Labelf("mode=%s", c.Mode)
	o.Labelf("type=%s", c.A.T)
	switch c.Mode {
	case "layer":
		var got uint8
		var err error
		if perr := core.Safely("DefaultLayer", func() error { got, err = layer(a, c.BF); return nil }); perr != nil {
			return fmt.Errorf("DefaultLayer(%#v, %d): %w", a, c.BF, perr)
		}
		want, _ := ref.Layer(a, c.BF, json.Marshal)
		if err != nil || got != want {
			return fmt.Errorf("DefaultLayer(%#v (%s), bf=%d) = %d,%v; the published layer function gives %d", a, c.A.T, c.BF, got, err, want)
		}
		o.NonTrivial = want >= 1
		o.Labelf("layer=%d", min(int(want), 6))
	case "compare":
		b := c.B.Value()
		var got int
		var err error
		if perr := core.Safely("DefaultKeyCompare", func() error { got, err = cmp(a, b); return nil }); perr != nil {
			return fmt.Errorf("DefaultKeyCompare(%#v, %#v): %w", a, b, perr)
		}
		want, werr := ref.Compare(a, b, json.Marshal)
		if (err != nil) != (werr != nil) {
			return fmt.Errorf("DefaultKeyCompare(%#v (%s), %#v (%s)) error=%v; the published order says error=%v", a, c.A.T, b, c.B.T, err, werr)
		}
		if err == nil && sign(got) != sign(want) {
			return fmt.Errorf("DefaultKeyCompare(%#v, %#v) = %d; the published order gives %d", a, b, got, want)
		}
		// antisymmetry on the way
		if err == nil {
			rev, rerr := cmp(b, a)
			if rerr != nil || sign(rev) != -sign(got) {
				return fmt.Errorf("DefaultKeyCompare is not antisymmetric on %#v, %#v: %d vs %d (%v)", a, b, got, rev, rerr)
			}
		}
		o.NonTrivial = werr == nil && want != 0
		if werr != nil {
			o.Label("mixed-types-must-error")
		}
	}
	return nil
}

func init() {
	run.Register(run.Prop[C14Case]{
		ID:    "C14",
		Level: "exploration",
		Rule: "two oracles. (1) golden: golden/vectors.json, generated once from the pinned commit and cross-checked against the independent reference at generation time, is re-derived from the tree under test on every run: node names of fixed inputs, NewRoot(nil)/NewInMemory defaults (bf 16, v1.1.5binary), DefaultLayer of ~800 keys of all 13 built-in key types x bf {2,3,4,7,16,64}, ~1100 DefaultKeyCompare results (incl. mixed types, which must error), and 294 persisted trees (7 key types x 2 formats x bf 2/4/16 x 7 sizes, 1-40 entries, every nil/non-nil link pattern that arises) that must be rebuilt byte for byte (root, every node name and bytes) and must load from the frozen bytes alone with the expected entries. (2) differential: generated keys of every integer width (small, multiples of bf^k, random, extremes, negative), strings, byte slices and structs at bf in {2..255} against the reference layer function; generated pairs (same and mixed types) against the reference order incl. antisymmetry. " +
			"Non-trivial = golden tree with a node of >= 2 entries and mixed nil/non-nil links, or any other golden group; generated key with layer >= 1; generated comparable pair that is unequal; distinct by case hash",
		Assumptions: []string{"'every release and host' is sampled on this host only", "encoding/json is the default marshaler (configuration)", "node bytes of arbitrary histories are additionally compared with the reference encoder in C08 and with the reference MST in C04"},
		Gen:         genC14,
		Run:         runC14,
		Enumerate:   enumC14,
	})
}

var _ = sort.Ints

// runC14Tree: every node a generated history persists must be byte-identical to what the
// independent reference encoder produces for the same entries (published format), and the
// root must be the reference root.
func runC14Tree(h HistCase, o *run.Obs) error {
	mixed := false
	check := func(w *core.World, sr *core.SavedRoot) error {
		want, nodes := w.RefRoot(sr.Model)
		got := core.RootOf(sr.Root)
		if got.Link != want.Link {
			// shape differences are C04/C09's subject; here only the encoding of identical shapes is compared
			if got.Height != want.Height || got.Size != want.Size {
				o.Label("shape-differs(C04)")
				return nil
			}
		}
		for name, b := range nodes {
			have, ok := w.Store.Peek(name)
			if !ok {
				if got.Link == want.Link {
					return fmt.Errorf("[%s] node %s of the reference encoding is not in the store although the root names agree", h.Cfg, name)
				}
				return fmt.Errorf("[%s] version with entries %s (height %d): the published encoding gives a node %s (%d bytes) that was not written; root is %q, reference root %q", h.Cfg, w.DescribeModel(sr.Model), got.Height, name, len(b), got.Link, want.Link)
			}
			if !bytes.Equal(have, b) {
				return fmt.Errorf("[%s] node %s: stored bytes differ from the published encoding", h.Cfg, name)
			}
			if n, err := h.Cfg.DecodeNode(b); err == nil && len(n.Keys) >= 2 && n.HasChild() {
				for _, l := range n.Links {
					if l == "" {
						mixed = true
					}
				}
			}
		}
		return nil
	}
	m, err := runHist(h, o, 1, func(w *core.World, m *core.Machine) {
		m.OnPersist = func(si int, t *core.Tree, sr *core.SavedRoot) error { return check(w, sr) }
	}, nil)
	if err != nil || m == nil {
		return err
	}
	sr, err := m.W.Persist(m.Slots[0])
	if err != nil {
		o.Label("aborted:base-failure")
		return nil
	}
	if err := check(m.W, sr); err != nil {
		return err
	}
	o.NonTrivial = mixed
	o.Label("mode=tree")
	o.Labelf("val=%s", h.Cfg.Val)
	o.Labelf("format=%s", h.Cfg.Format)
	return nil
}
