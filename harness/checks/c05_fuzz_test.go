package checks

import (
	"bytes"
	"encoding/json"
	"fmt"
	"os"
	"path/filepath"
	"sort"
	"testing"
	"unicode/utf8"

	"github.com/jrhy/mast"
	"verif/harness/core"
	"verif/harness/env"
	"verif/harness/ref"
)

// RawTree is a tree given by its literal entries ([]byte keys and values, which round-trip through JSON whatever
// their bytes): the shape native fuzzing produces. It is replayable through HistCase.Raw.
type RawTree struct {
	BF     uint     `json:"bf"`
	Binary bool     `json:"binary"`
	Keys   [][]byte `json:"keys"`
	Vals   [][]byte `json:"vals"`
	Drop   int      `json:"drop"`          // after the first round trip every Drop-th key is deleted and the tree persisted again
	Str    bool     `json:"str,omitempty"` // keys and values are handed to the tree as strings (they are valid UTF-8) instead of byte slices
}

// rawRoundTrip: insert, persist, check every stored node against the reference codec and hash, compare the root with
// the reference MST, reload and compare the contents; delete some entries and do it again.
func rawRoundTrip(rt RawTree) error {
	if rt.BF < 2 {
		rt.BF = 2
	}
	format := ref.FormatV1
	opts := &mast.CreateRemoteOptions{BranchFactor: rt.BF, NodeFormat: mast.V1Marshaler}
	if rt.Binary {
		format = ref.FormatBinary
		opts.NodeFormat = mast.V115Binary
	}
	store := env.NewRecStore("mem://fuzz")
	rc := &mast.RemoteConfig{KeysLike: []byte{}, ValuesLike: []byte{}, StoreImmutablePartsWith: store}
	mk := func(b []byte) interface{} { return b }
	if rt.Str {
		rc.KeysLike, rc.ValuesLike = "", ""
		mk = func(b []byte) interface{} { return string(b) }
	}
	raw := func(x interface{}) ([]byte, bool) {
		switch v := x.(type) {
		case []byte:
			return v, !rt.Str
		case string:
			return []byte(v), rt.Str
		}
		return nil, false
	}
	var m *mast.Mast
	if err := core.Safely("LoadMast", func() error { var e error; m, e = mast.NewRoot(opts).LoadMast(core.Ctx, rc); return e }); err != nil {
		return fmt.Errorf("creating an empty tree: %w", err)
	}
	model := map[string][]byte{}
	for i, k := range rt.Keys {
		v := []byte{}
		if i < len(rt.Vals) {
			v = rt.Vals[i]
		}
		if k == nil {
			k = []byte{}
		}
		if v == nil {
			v = []byte{}
		}
		if err := core.Safely("Insert", func() error { return m.Insert(core.Ctx, mk(k), mk(v)) }); err != nil {
			return fmt.Errorf("Insert(%x) failed: %w", k, err)
		}
		model[string(k)] = v
	}
	check := func(when string) error {
		var root *mast.Root
		if err := core.Safely("MakeRoot", func() error { var e error; root, e = m.MakeRoot(core.Ctx); return e }); err != nil {
			return fmt.Errorf("%s: MakeRoot failed: %w", when, err)
		}
		keys := make([]string, 0, len(model))
		for k := range model {
			keys = append(keys, k)
		}
		sort.Slice(keys, func(i, j int) bool { return bytes.Compare([]byte(keys[i]), []byte(keys[j])) < 0 })
		var entries []ref.Entry
		for _, k := range keys {
			kb, _ := json.Marshal(mk([]byte(k)))
			vb, _ := json.Marshal(mk(model[k]))
			l, err := ref.Layer(mk([]byte(k)), rt.BF, json.Marshal)
			if err != nil {
				return fmt.Errorf("harness: %w", err)
			}
			entries = append(entries, ref.Entry{Key: kb, Value: vb, Layer: l})
		}
		want, _ := ref.Build(entries, rt.BF, format)
		if got := core.RootOf(*root); got != want {
			return fmt.Errorf("%s: MakeRoot returned %+v, the unique MST of the %d entries has %+v", when, got, len(keys), want)
		}
		for _, name := range store.Names() {
			b, _ := store.Peek(name)
			if ref.NodeName(b) != name {
				return fmt.Errorf("%s: node stored as %s has bytes that hash to %s", when, name, ref.NodeName(b))
			}
			n, err := ref.Decode(format, b)
			if err != nil {
				return fmt.Errorf("%s: stored node %s does not decode with the reference decoder: %w", when, name, err)
			}
			if !bytes.Equal(ref.Encode(format, n), b) {
				return fmt.Errorf("%s: stored node %s is not the canonical encoding of its entries and child names", when, name)
			}
		}
		var lm *mast.Mast
		if err := core.Safely("LoadMast", func() error { var e error; lm, e = root.LoadMast(core.Ctx, rc); return e }); err != nil {
			return fmt.Errorf("%s: loading the root just persisted failed: %w", when, err)
		}
		if lm.Size() != uint64(len(model)) || lm.Height() != root.Height {
			return fmt.Errorf("%s: reloaded tree has size %d height %d, persisted %d / %d", when, lm.Size(), lm.Height(), len(model), root.Height)
		}
		i := 0
		var ierr error
		err := core.Safely("Iter", func() error {
			return lm.Iter(core.Ctx, func(k, v interface{}) error {
				kb, ok1 := raw(k)
				vb, ok2 := raw(v)
				if !ok1 || !ok2 {
					ierr = fmt.Errorf("entry %d comes back as %T -> %T", i, k, v)
				} else if i >= len(keys) || !bytes.Equal(kb, []byte(keys[i])) || !bytes.Equal(vb, model[keys[i]]) {
					if ierr == nil {
						ierr = fmt.Errorf("entry %d comes back as %x -> %x", i, kb, vb)
					}
				}
				i++
				return nil
			})
		})
		if err != nil {
			return fmt.Errorf("%s: Iter of the reloaded tree failed: %w", when, err)
		}
		if ierr != nil {
			return fmt.Errorf("%s: reloaded tree differs: %w", when, ierr)
		}
		if i != len(keys) {
			return fmt.Errorf("%s: reloaded tree yields %d entries, %d were persisted", when, i, len(keys))
		}
		for _, k := range keys {
			var v interface{}
			found, err := lm.Get(core.Ctx, mk([]byte(k)), &v)
			if err != nil || !found {
				return fmt.Errorf("%s: Get(%x) on the reloaded tree: found=%v err=%v", when, k, found, err)
			}
		}
		m = lm // go on with the reloaded tree
		return nil
	}
	if err := check("first persist"); err != nil {
		return err
	}
	if rt.Drop > 0 {
		i := 0
		for _, k := range rt.Keys {
			if k == nil {
				k = []byte{}
			}
			v, ok := model[string(k)]
			if !ok {
				continue
			}
			i++
			if i%rt.Drop != 0 {
				continue
			}
			if err := core.Safely("Delete", func() error { return m.Delete(core.Ctx, mk(k), mk(v)) }); err != nil {
				return fmt.Errorf("Delete(%x) of a present entry on the reloaded tree failed: %w", k, err)
			}
			delete(model, string(k))
		}
		return check("after deleting on the reloaded tree")
	}
	return nil
}

// FuzzRoundTrip: coverage-guided search over literal key/value bytes (thorough tier only).
func FuzzRoundTrip(f *testing.F) {
	f.Add([]byte("a\x00bb\x00ccc\x00\x00dddd"), []byte("1\x002\x003"), uint8(2), true, uint8(2))
	f.Add(bytes.Repeat([]byte("k\x00"), 40), bytes.Repeat([]byte{0xff, 0x00}, 40), uint8(3), false, uint8(3))
	f.Add(append(bytes.Repeat([]byte{'x'}, 127), 0, 'y'), bytes.Repeat([]byte{'v'}, 300), uint8(16), true, uint8(0))
	// lengths around the one- and two-byte boundaries of the length prefixes, and element counts around 128
	for _, l := range []int{124, 125, 126, 127, 128, 253, 254, 16381, 16382} {
		f.Add(append(bytes.Repeat([]byte{'k'}, l), 0, 'z'), append(bytes.Repeat([]byte{'v'}, l), 0, 'w'), uint8(14), true, uint8(0))
	}
	var many []byte
	for i := 0; i < 130; i++ {
		many = append(many, []byte(fmt.Sprintf("k%03d\x00", i))...)
	}
	f.Add(many, []byte("v"), uint8(253), true, uint8(3))
	f.Add(many, []byte("v"), uint8(253), false, uint8(2))
	f.Fuzz(func(t *testing.T, keyblob, valblob []byte, bf uint8, binary bool, drop uint8) {
		rt := RawTree{BF: uint(bf) + 2, Binary: binary, Drop: int(drop % 5), Str: utf8.Valid(keyblob) && utf8.Valid(valblob)}
		for _, k := range bytes.Split(keyblob, []byte{0}) {
			if len(rt.Keys) >= 200 {
				break
			}
			rt.Keys = append(rt.Keys, k)
		}
		for _, v := range bytes.Split(valblob, []byte{0}) {
			if len(rt.Vals) >= len(rt.Keys) {
				break
			}
			rt.Vals = append(rt.Vals, v)
		}
		if err := rawRoundTrip(rt); err != nil {
			if dir := os.Getenv("VERIF_OUT"); dir != "" {
				cb, _ := json.Marshal(HistCase{Cfg: core.Config{BF: rt.BF, Format: ref.FormatBinary, Key: core.KBytes, Val: core.VBytes, Cache: "none", Marshaler: "json"}, Raw: &rt})
				b, _ := json.Marshal(map[string]interface{}{"property": "C05", "origin": "native fuzzing (FuzzRoundTrip): literal keys and values", "error": err.Error(), "case": json.RawMessage(cb)})
				os.MkdirAll(filepath.Join(dir, "replays"), 0o755)
				os.WriteFile(filepath.Join(dir, "replays", "C05-fuzz.json"), b, 0o644)
			}
			t.Fatal(err)
		}
	})
}
