package checks

import (
	"errors"
	"fmt"
	"time"

	"pgregory.net/rapid"
	"verif/harness/core"
	"verif/harness/run"
)

// HistCase is the case shape shared by the checks that observe what a
// history persists (C05, C08, C09, C13).
type HistCase struct {
	Cfg  core.Config `json:"cfg"`
	Fill []core.Op   `json:"fill,omitempty"`
	Prog []core.Op   `json:"prog"`
	// Raw, when set, replaces the generated history by a tree of literal entries (a finding of native fuzzing)
	Raw *RawTree `json:"raw,omitempty"`
}

func genHist(t *rapid.T, tier string, o core.GenOpts, w core.OpWeights, quickOps, thoroughOps, fillMax, slots int) HistCase {
	c := HistCase{Cfg: core.GenConfig(t, tier, o)}
	maxOps := quickOps
	if tier == "thorough" {
		maxOps = thoroughOps
	}
	c.Fill = core.GenFillCfg(t, c.Cfg, fillMax)
	c.Prog = core.GenProgram(t, core.WithBulk(w, c.Cfg), maxOps, slots)
	return c
}

// runHist runs fill+program; a failure of an operation itself (map
// semantics, C01's subject) aborts the case without verdict.
func runHist(c HistCase, o *run.Obs, slots int, setup func(w *core.World, m *core.Machine), perStep func(step int, op core.Op, m *core.Machine) error) (*core.Machine, error) {
	w := core.NewWorld(c.Cfg)
	m, err := core.NewMachine(w, slots)
	if err != nil {
		o.Label("aborted:base-failure")
		return nil, nil
	}
	var hookErr error
	if setup != nil {
		setup(w, m)
	}
	// hooks report through hookErr so that their verdicts are not confused with base failures
	if onp := m.OnPersist; onp != nil {
		m.OnPersist = func(si int, t *core.Tree, sr *core.SavedRoot) error {
			if e := onp(si, t, sr); e != nil && hookErr == nil {
				hookErr = e
			}
			return nil
		}
	}
	step := 0
	for _, ops := range [][]core.Op{c.Fill, c.Prog} {
		for _, op := range ops {
			step++
			err := m.Step(op)
			if hookErr != nil {
				return m, fmt.Errorf("[%s] step %d %s: %w", c.Cfg, step, op, hookErr)
			}
			if err != nil {
				if errors.Is(err, core.ErrSkipped) {
					continue
				}
				// the operated tree itself misbehaved (map semantics, C01's subject); before the case is given up, the check
				// may still look at what is observable without the model (e.g. the shape of what gets persisted now)
				if histOnAbort != nil {
					if e := histOnAbort(w, m); e != nil {
						return m, fmt.Errorf("[%s] step %d %s (an operation of this history failed: %v): %w", c.Cfg, step, op, firstLine(err), e)
					}
				}
				o.Label("aborted:base-failure")
				return nil, nil
			}
			if perStep != nil {
				if e := perStep(step, op, m); e != nil {
					return m, fmt.Errorf("[%s] step %d %s: %w", c.Cfg, step, op, e)
				}
			}
		}
	}
	return m, nil
}

// histOnAbort is set by a check (for the duration of one case) that wants a last look when a history is given up.
var histOnAbort func(w *core.World, m *core.Machine) error

func firstLine(err error) string {
	s := err.Error()
	for i := range s {
		if s[i] == '\n' {
			return s[:i]
		}
	}
	if len(s) > 300 {
		return s[:300]
	}
	return s
}

func labelCfg(o *run.Obs, c core.Config) {
	o.Labelf("key=%s", c.Key)
	o.Labelf("val=%s", c.Val)
	o.Labelf("format=%s", c.Format)
	o.Labelf("cache=%s", c.Cache)
	o.Labelf("marshaler=%s", c.Marshaler)
	o.Labelf("bf=%d", c.BF)
	if c.IsBig() {
		o.Label("big-key-universe")
	}
	if c.Cmp != "" {
		o.Labelf("cmp=%s", c.Cmp)
	}
}

func runtimeGosched() { time.Sleep(50 * time.Microsecond) }

// enumWide yields deterministic histories that build single nodes with 127..300
// entries (element counts on the varint boundaries of the binary format) in
// both formats, then persist, reload and keep operating.
func enumWide(tier string, shard, nshards int, yield func(HistCase) bool) (bool, string) {
	i := 0
	for _, format := range core.Formats {
		for _, n := range []int{127, 128, 129, 255, 256, 300} {
			for _, val := range []string{core.VInt, core.VLong} {
				i++
				if i%nshards != shard {
					continue
				}
				layers := make([]uint8, 320) // all layer 0: one node holds every entry
				cfg := core.Config{BF: 255, Format: format, Key: core.KLK, Val: val, Cache: "none", Marshaler: "json", LKLayers: layers}
				var fill []core.Op
				for k := 0; k < n; k++ {
					fill = append(fill, core.Op{Kind: core.OpInsert, K: k, V: k % 6})
				}
				prog := []core.Op{{Kind: core.OpPersist}, {Kind: core.OpReload}, {Kind: core.OpIter}, {Kind: core.OpDelete, K: 5}, {Kind: core.OpInsertNew, K: 1, V: 2},
					{Kind: core.OpPersist}, {Kind: core.OpReloadJSON, N: 1}, {Kind: core.OpIter}}
				if !yield(HistCase{Cfg: cfg, Fill: fill, Prog: prog}) {
					return false, ""
				}
			}
		}
	}
	// inner nodes with 126..129 entries (127..130 child slots, most of them nil): bf 16, that many keys of layer 1
	// interleaved with a few keys of layer 0
	for _, format := range core.Formats {
		for _, n := range []int{126, 127, 128, 129} {
			i++
			if i%nshards != shard {
				continue
			}
			layers := make([]uint8, n+12)
			for k := range layers {
				layers[k] = 1
			}
			var fill []core.Op
			for k := 0; k < len(layers); k++ {
				if k%11 == 3 || k == 0 {
					layers[k] = 0 // a child below the top node (also in its first slot when k == 0)
				}
			}
			if n%2 == 0 {
				layers[0] = 1 // alternately: the first child slot stays nil
			}
			top := 0
			for k := range layers {
				if layers[k] == 1 {
					top++
				}
			}
			for k := 0; k < len(layers) && top >= 0; k++ {
				fill = append(fill, core.Op{Kind: core.OpInsert, K: k, V: k % 4})
			}
			cfg := core.Config{BF: 16, Format: format, Key: core.KLK, Val: core.VInt, Cache: "none", Marshaler: "json", LKLayers: layers}
			prog := []core.Op{{Kind: core.OpPersist}, {Kind: core.OpReload}, {Kind: core.OpIter}, {Kind: core.OpDeleteTop, K: 1}, {Kind: core.OpPersist}, {Kind: core.OpReload, N: 1}, {Kind: core.OpIter},
				{Kind: core.OpDeleteTop, K: 0}, {Kind: core.OpDeleteTop, K: 0}, {Kind: core.OpPersist}, {Kind: core.OpReloadJSON, N: 2}, {Kind: core.OpIter}}
			if !yield(HistCase{Cfg: cfg, Fill: fill, Prog: prog}) {
				return false, ""
			}
		}
	}
	// one persist that writes several megabytes: 170 entries with 16-20 kB values (nodes of ~300 kB each)
	for _, format := range core.Formats {
		i++
		if i%nshards != shard {
			continue
		}
		layers := make([]uint8, 180)
		for k := range layers {
			if k%16 == 7 {
				layers[k] = 1
			}
		}
		cfg := core.Config{BF: 16, Format: format, Key: core.KLK, Val: core.VLong, Cache: "none", Marshaler: "json", LKLayers: layers}
		var fill []core.Op
		for k := 0; k < 170; k++ {
			fill = append(fill, core.Op{Kind: core.OpInsert, K: k, V: 5 + k%2}) // value numbers 5 and 6: 16384 and 20000 bytes
		}
		prog := []core.Op{{Kind: core.OpPersist}, {Kind: core.OpReload}, {Kind: core.OpIter}, {Kind: core.OpInsertNew, K: 3, V: 6}, {Kind: core.OpDelete, K: 9}, {Kind: core.OpPersist}, {Kind: core.OpReload, N: 1}, {Kind: core.OpIter}}
		if !yield(HistCase{Cfg: cfg, Fill: fill, Prog: prog}) {
			return false, ""
		}
	}
	return false, "one persist of ~3 MB (170 entries with 16-20 kB values); wide nodes: single nodes of 127/128/129/255/256/300 entries (bf 255, user keys of layer 0) x both formats x int and boundary-length string values, persisted, reloaded and modified; and inner (top) nodes of 124-130 entries with mostly nil child slots (bf 16), shrunk one top key at a time across the 128 boundary"
}
