package checks

import (
	"fmt"
	"reflect"

	"github.com/jrhy/mast"
	"pgregory.net/rapid"
	"verif/harness/core"
	"verif/harness/run"
)

// C05 — persist then load is the identity on the map.

var c05Weights = core.OpWeights{
	core.OpInsert: 20, core.OpInsertNew: 25, core.OpUpdate: 8, core.OpDelete: 20, core.OpDeleteTop: 4, core.OpGet: 3,
	core.OpClone: 2, core.OpPersistFail: 3, core.OpPersist: 12, core.OpReload: 10, core.OpReloadJSON: 6, core.OpDrain: 1, core.OpIter: 2,
}

func genC05(t *rapid.T, tier string) HistCase {
	return genHist(t, tier, core.GenOpts{Marshalers: []string{"json", "json", "custom", "customz"}, BigOneIn: 12, Vals: core.ValKindsWithFloat}, c05Weights, 60, 120, 40, 2)
}

func runC05(c HistCase, o *run.Obs) error {
	if c.Raw != nil {
		o.Label("raw-entries")
		return rawRoundTrip(*c.Raw)
	}
	reloadsAtHeight := 0
	m, err := runHist(c, o, 2, func(w *core.World, m *core.Machine) {
		m.OnPersist = func(si int, t *core.Tree, sr *core.SavedRoot) error {
			if sr.Root.BranchFactor != c.Cfg.BF || sr.Root.NodeFormat != c.Cfg.Format {
				return fmt.Errorf("MakeRoot recorded branch factor %d / format %q for a tree created with %d / %q", sr.Root.BranchFactor, sr.Root.NodeFormat, c.Cfg.BF, c.Cfg.Format)
			}
			for _, viaJSON := range []bool{false, true} {
				for pass, cache := range []mast.NodeCache{w.Cache, nil} {
					if pass == 0 && cache == nil {
						continue
					}
					lt, err := w.Load(sr, nil, cache, viaJSON)
					if err != nil {
						return fmt.Errorf("loading the root just returned by MakeRoot failed (viaJSON=%v, cache pass %d): %w", viaJSON, pass, err)
					}
					if err := w.CompareContents(lt.M, sr.Model); err != nil {
						return fmt.Errorf("tree loaded from the root just persisted differs (viaJSON=%v, cache pass %d): %w", viaJSON, pass, err)
					}
					if lt.M.Height() != t.M.Height() || lt.M.Height() != sr.Root.Height {
						return fmt.Errorf("reloaded height %d, persisted tree height %d, root height %d", lt.M.Height(), t.M.Height(), sr.Root.Height)
					}
					if lt.M.BranchFactor() != t.M.BranchFactor() {
						return fmt.Errorf("reloaded branch factor %d != %d", lt.M.BranchFactor(), t.M.BranchFactor())
					}
					// the node format of the reloaded tree shows in the root it produces
					var r2 *mast.Root
					if err := core.Safely("MakeRoot", func() error { var e error; r2, e = lt.M.MakeRoot(core.Ctx); return e }); err != nil {
						return fmt.Errorf("MakeRoot on a freshly reloaded tree failed: %w", err)
					}
					if r2.NodeFormat != sr.Root.NodeFormat || r2.BranchFactor != sr.Root.BranchFactor || r2.Size != sr.Root.Size || r2.Height != sr.Root.Height {
						return fmt.Errorf("reloaded tree describes itself as %+v, persisted root was %+v", *r2, sr.Root)
					}
				}
			}
			if cm, _ := c.Cfg.Codec(); cm == nil && c.Cfg.Val != core.VNil {
				// a read-only opening that names no value type: the keys of the version are still all there, in order
				rc := w.RemoteConfig(w.Store, nil)
				rc.ValuesLike, rc.UnmarshalerUsesRegisteredTypes = nil, false
				root := sr.Root
				var km *mast.Mast
				if err := core.Safely("LoadMast", func() error { var e error; km, e = root.LoadMast(core.Ctx, rc); return e }); err == nil {
					got, err := core.IterAll(km)
					if err != nil {
						return fmt.Errorf("iterating the root just persisted, opened without ValuesLike, failed: %w", err)
					}
					keys := sr.Model.Keys()
					if len(got) != len(keys) || km.Size() != uint64(len(keys)) {
						return fmt.Errorf("the root just persisted, opened without ValuesLike, yields %d keys (Size %d), persisted %d", len(got), km.Size(), len(keys))
					}
					for i, ki := range keys {
						if w.Cfg.RefCompare(got[i].K, w.Pool[ki]) != 0 {
							return fmt.Errorf("the root just persisted, opened without ValuesLike, yields key %#v at %d, expected %#v", got[i].K, i, w.Pool[ki])
						}
						var typed interface{}
						if zv := c.Cfg.ZeroVal(); zv != nil && i%2 == 0 {
							typed = reflect.New(reflect.TypeOf(zv)).Interface()
						}
						var found bool
						if err := core.Safely("Get", func() error { var e error; found, e = km.Get(core.Ctx, w.Pool[ki], typed); return e }); err != nil || !found {
							return fmt.Errorf("the root just persisted, opened without ValuesLike: Get(%v) = %v, %v", w.Pool[ki], found, err)
						}
						if typed != nil && i < 8 {
							// whatever lands in the destination, it is nothing or the stored value
							if v := reflect.ValueOf(typed).Elem(); !v.IsZero() && !core.EqualVal(v.Interface(), w.Cfg.MakeVal(sr.Model[ki])) {
								return fmt.Errorf("the root just persisted, opened without ValuesLike: Get(%v) filled in %#v, stored was %#v", w.Pool[ki], v.Interface(), w.Cfg.MakeVal(sr.Model[ki]))
							}
						}
					}
					o.Label("keys-only-opening")
				}
			}
			return nil
		}
	}, func(step int, op core.Op, m *core.Machine) error {
		if op.Kind == core.OpReload || op.Kind == core.OpReloadJSON {
			_, t := 0, m.Slots[op.Slot%len(m.Slots)]
			if t == nil {
				t = m.Slots[0]
			}
			if t.M.Height() >= 1 {
				reloadsAtHeight++
			}
		}
		return nil
	})
	if err != nil || m == nil {
		return err
	}
	if err := m.CheckAll(); err != nil {
		// reloaded trees must keep satisfying the model through later mutations
		if m.Ev.Reloads > 0 {
			return fmt.Errorf("[%s] after %d reloads: %w", c.Cfg, m.Ev.Reloads, err)
		}
		o.Label("aborted:base-failure")
		return nil
	}
	o.NonTrivial = reloadsAtHeight >= 1 && m.Ev.Reloads >= 2 && m.Ev.MutAfterReload >= 1
	labelCfg(o, c.Cfg)
	o.Labelf("maxheight=%d", m.Ev.MaxHeight)
	o.Labelf("reloads=%d", min(m.Ev.Reloads, 5))
	return nil
}

func init() {
	run.Register(run.Prop[HistCase]{
		ID:    "C05",
		Level: "exploration",
		Rule: "case = configuration (11 key types x 10 value kinds incl. float64 with both zeros x both formats x default-JSON / custom codec with registered types x 7 cache kinds) + fill + program of <=60/120 ops with frequent persist/reload (Root passed directly or through json.Marshal/Unmarshal); at EVERY persist the returned root is loaded four ways (direct / via JSON x shared cache / cache-less) and compared entry by entry (typed DeepEqual), plus Size, Height, BranchFactor and NodeFormat; the program keeps operating on reloaded trees; the root is also opened WITHOUT ValuesLike (a read-only opening that names no value type; not judged if refused): every key must be there, in order, with Size, and Get must find each. " +
			"Non-trivial = >=2 reloads, one of them of a tree of height >= 1, and a mutation after a reload; distinct by case hash",
		Assumptions: []string{"only key/value types whose encoding round-trips are generated (the property's own restriction)"},
		Gen:         genC05,
		Run:         runC05,
		Enumerate:   enumWide,
	})
}
