package checks

import (
	"encoding/json"
	"errors"
	"fmt"
	"reflect"

	"github.com/jrhy/mast"
	"pgregory.net/rapid"
	"verif/harness/core"
	"verif/harness/ref"
	"verif/harness/run"
)

// C16 — point operations read only the search path.

type C16Probe struct {
	Op string `json:"op"` // get | insert | update | delete | delabsent | clone | cursor | min | max | ceil | forward | backward | seekfirst
	K  int    `json:"k"`
}

type C16Case struct {
	Cfg    core.Config `json:"cfg"`
	Fill   []core.Op   `json:"fill,omitempty"`
	Prog   []core.Op   `json:"prog,omitempty"`
	Big    int         `json:"big,omitempty"` // consecutive int keys 0..Big-1 instead of a history
	Probes []C16Probe  `json:"probes"`
}

var c16Ops = []string{"get", "get", "insert", "insert", "inserthigh", "insertlow", "insertlow", "update", "delete", "delete", "deletetop", "deletetop", "delabsent", "clone", "mutclone", "mutpersist", "getwrongtype", "getkeysonly", "getkeysonly", "getseq", "getseq", "openlegacy", "opentaller", "openbad", "cursor", "min", "max", "ceil", "forward", "backward", "seekfirst"}

func genC16(t *rapid.T, tier string) C16Case {
	c := C16Case{Cfg: core.GenConfig(t, tier, core.GenOpts{Caches: []string{"none"}, Vals: []string{core.VInt, core.VString, core.VBytes, core.VPtr, core.VStruct, core.VNil, core.VTags}, BigOneIn: 8})}
	pool := len(c.Cfg.Pool())
	c.Fill = core.GenFillCfg(t, c.Cfg, pool)
	c.Prog = core.GenProgram(t, core.WithBulk(pairBaseWeights, c.Cfg), 20, 1)
	n := rapid.IntRange(1, 8).Draw(t, "nprobes")
	for i := 0; i < n; i++ {
		c.Probes = append(c.Probes, C16Probe{Op: rapid.SampledFrom(c16Ops).Draw(t, "probeop"), K: rapid.IntRange(0, 63).Draw(t, "probekey")})
	}
	return c
}

func enumC16(tier string, shard, nshards int, yield func(C16Case) bool) (bool, string) {
	sizes := []int{600, 2500}
	if tier == "thorough" {
		sizes = []int{600, 2500, 10000, 40000}
	}
	i := 0
	for _, bf := range []uint{2, 4, 16} {
		for _, n := range sizes {
			if bf == 2 && n > 2500 {
				continue
			}
			for r := 0; r < 4; r++ {
				i++
				if i%nshards != shard {
					continue
				}
				var probes []C16Probe
				for j, op := range c16Ops {
					probes = append(probes, C16Probe{Op: op, K: (r*7919 + j*104729 + n/3) % (n + n/2)})
				}
				cfg := core.Config{BF: bf, Format: ref.FormatBinary, Key: core.KInt, Val: core.VInt, Cache: "none", Marshaler: "json"}
				if !yield(C16Case{Cfg: cfg, Big: n, Probes: probes}) {
					return false, ""
				}
			}
		}
	}
	return false, "large trees of consecutive int keys (600-2500 quick, up to 40000 thorough; bf 4 and 16) probed with every operation kind at present and absent keys"
}

func runC16(c C16Case, o *run.Obs) error {
	w := core.NewWorld(c.Cfg)
	var t *core.Tree
	if c.Big > 0 {
		w.Pool = make([]interface{}, c.Big+c.Big/2+1)
		for i := range w.Pool {
			w.Pool[i] = i
		}
		var err error
		if t, err = w.NewTree(); err != nil {
			o.Label("aborted:base-failure")
			return nil
		}
		// the tree holds the keys [Big/4, Big/4+Big): absent keys of every layer exist below and above
		for i := c.Big / 4; i < c.Big/4+c.Big; i++ {
			if err := w.Insert(t, i, i%5); err != nil {
				o.Label("aborted:base-failure")
				return nil
			}
		}
	} else {
		m, err := core.NewMachine(w, 1)
		if err != nil {
			o.Label("aborted:base-failure")
			return nil
		}
		for _, ops := range [][]core.Op{c.Fill, c.Prog} {
			for _, op := range ops {
				if err := m.Step(op); err != nil && !errors.Is(err, core.ErrSkipped) {
					o.Label("aborted:base-failure")
					return nil
				}
			}
		}
		t = m.Slots[0]
	}
	sr, err := w.Persist(t)
	if err != nil {
		o.Label("aborted:base-failure")
		return nil
	}
	nodes, err := w.Reachable(sr.Root)
	if err != nil {
		o.Label("aborted:root-not-complete(C03)")
		return nil
	}
	w.Store.TrimLog()
	h := int(sr.Root.Height)
	size := len(sr.Model)
	keys := sr.Model.Keys()
	sublinearCap := 4*(h+1) + 4
	large := len(nodes) > 10*sublinearCap
	desc := fmt.Sprintf("[%s] tree of %d entries, %d nodes, height %d", c.Cfg, size, len(nodes), h)
	count := func(what string, bound int, f func() error) error {
		mark := w.Store.Mark()
		if err := core.Safely(what, f); err != nil {
			// the operation failing is not this property's subject
			return errAbort
		}
		n := countLoads(w, mark)
		w.Store.TrimLog()
		if bound >= 0 && n > bound {
			return fmt.Errorf("%s: %s read %d nodes, bound is %d", desc, what, n, bound)
		}
		return nil
	}
	for _, pr := range c.Probes {
		var lt *core.Tree
		// opening a version reads at most its top node
		if err := count("LoadMast", 1, func() error { var e error; lt, e = w.Load(sr, nil, nil, false); return e }); err != nil {
			if err == errAbort {
				o.Label("aborted:base-failure")
				return nil
			}
			return err
		}
		ki := pr.K % len(w.Pool)
		key := w.Pool[ki]
		present := func() (int, bool) { return core.PresentKey(lt.Model, pr.K) }
		var err error
		switch pr.Op {
		case "get":
			var v interface{}
			var dst interface{} = &v
			if c.Cfg.Val == core.VNil {
				// set-style use: every stored value is nil; the caller hands in a typed destination anyway
				var typed string
				dst = &typed
			}
			err = count(fmt.Sprintf("Get(%v)", key), h+1, func() error { _, e := lt.M.Get(core.Ctx, key, dst); return e })
		case "insert", "update", "inserthigh", "insertlow":
			k2 := key
			if pr.Op == "update" {
				if pk, ok := present(); ok {
					k2 = w.Pool[pk]
				}
			}
			if pr.Op == "insertlow" {
				// the absent key of the highest layer below the smallest present key (a new minimum that lands high up)
				keys := lt.Model.Keys()
				best, bk := -1, -1
				for ki := range w.Pool {
					if len(keys) > 0 && ki >= keys[0] {
						break
					}
					if l := int(w.Cfg.RefLayer(w.Pool[ki])); l > best {
						best, bk = l, ki
					}
				}
				if bk < 0 {
					continue
				}
				k2 = w.Pool[bk]
			}
			if pr.Op == "inserthigh" {
				// an absent key of the highest layer, alternately the smallest and the largest such key
				best, bk := -1, -1
				for ki := range w.Pool {
					if _, in := lt.Model[ki]; in {
						continue
					}
					l := int(w.Cfg.RefLayer(w.Pool[ki]))
					if l > best || (l == best && pr.K%2 == 1) {
						best, bk = l, ki
					}
				}
				if bk < 0 {
					continue
				}
				k2 = w.Pool[bk]
			}
			mark := w.Store.Mark()
			hb := lt.M.Height()
			e := core.Safely("Insert", func() error { return lt.M.Insert(core.Ctx, k2, w.Cfg.MakeVal(7)) })
			n := countLoads(w, mark)
			w.Store.TrimLog()
			if e != nil {
				o.Label("aborted:base-failure")
				return nil
			}
			if lt.M.Height() == hb && n > 2*(h+1) {
				err = fmt.Errorf("%s: Insert(%v) at unchanged height read %d nodes, bound is %d", desc, k2, n, 2*(h+1))
			}
		case "delete", "deletetop":
			pk, ok := present()
			if !ok {
				continue
			}
			if pr.Op == "deletetop" {
				best := -1
				for _, ki := range lt.Model.Keys() {
					if l := int(w.Cfg.RefLayer(w.Pool[ki])); l > best || (l == best && pr.K%2 == 1) {
						best, pk = l, ki
					}
				}
			}
			mark := w.Store.Mark()
			hb := lt.M.Height()
			e := core.Safely("Delete", func() error { return lt.M.Delete(core.Ctx, w.Pool[pk], w.Cfg.MakeVal(lt.Model[pk])) })
			n := countLoads(w, mark)
			w.Store.TrimLog()
			if e != nil {
				o.Label("aborted:base-failure")
				return nil
			}
			if lt.M.Height() == hb && n > 2*(h+1) {
				err = fmt.Errorf("%s: Delete(%v) at unchanged height read %d nodes, bound is %d", desc, w.Pool[pk], n, 2*(h+1))
			}
		case "delabsent":
			ak, ok := core.AbsentKey(lt.Model, len(w.Pool), pr.K)
			if !ok {
				continue
			}
			err = count(fmt.Sprintf("Delete(absent %v)", w.Pool[ak]), 2*(h+1), func() error { lt.M.Delete(core.Ctx, w.Pool[ak], w.Cfg.MakeVal(0)); return nil })
		case "clone":
			err = count("Clone", 1, func() error { _, e := lt.M.Clone(core.Ctx); return e })
		case "mutclone", "mutpersist":
			// a version that was opened and then modified: cloning it still needs nothing beyond (at most) the top node,
			// and persisting it is not an operation that may read in proportion to the tree
			ak, ok := core.AbsentKey(lt.Model, len(w.Pool), pr.K)
			if !ok {
				continue
			}
			if e := w.Insert(lt, ak, 3); e != nil {
				o.Label("aborted:base-failure")
				return nil
			}
			if pk, ok := core.PresentKey(lt.Model, pr.K/2); ok && pr.K%3 == 0 {
				if e := w.Delete(lt, pk); e != nil {
					o.Label("aborted:base-failure")
					return nil
				}
			}
			w.Store.TrimLog()
			if pr.Op == "mutclone" {
				err = count("Clone of an opened and then modified version", 1, func() error { _, e := lt.M.Clone(core.Ctx); return e })
			} else {
				bound := -1
				if large {
					bound = sublinearCap
				}
				err = count("MakeRoot of an opened and then modified version", bound, func() error { _, e := lt.M.MakeRoot(core.Ctx); return e })
			}
		case "getseq":
			// several lookups on the SAME opened handle: each of them is a lookup (state kept between calls must not cost reads)
			for j := 0; j < 4 && err == nil; j++ {
				kj := (pr.K*(j+1) + j*j*7) % len(w.Pool)
				if j%2 == 1 {
					if pk, ok := core.PresentKey(lt.Model, pr.K+j*13); ok {
						kj = pk
					}
				}
				if j == 2 && kj+1 < len(w.Pool) {
					kj++ // a neighbour of the previous key: often in the same node's range without being in that node
				}
				var v interface{}
				var dst interface{} = &v
				if c.Cfg.Val == core.VNil && j%2 == 0 {
					var typed int
					dst = &typed
				}
				kk := w.Pool[kj]
				err = count(fmt.Sprintf("Get(%v) as lookup #%d on one opened handle", kk, j+1), h+1, func() error { _, e := lt.M.Get(core.Ctx, kk, dst); return e })
			}
		case "opentaller":
			// a version as releases before the symmetric shrink rule could leave it: a key-less top node whose single child is
			// this version's top node, recorded one level taller. Opening it (accepted or refused) reads at most its top node.
			if sr.Root.Link == nil || (c.Cfg.Format == ref.FormatV1 && c.Cfg.Marshaler != "json") {
				continue
			}
			top := c.Cfg.EncodeNode(&ref.Node{Keys: [][]byte{}, Values: [][]byte{}, Links: []string{*sr.Root.Link}})
			name := ref.NodeName(top)
			w.Store.Put(name, top)
			taller := *sr
			taller.Root.Link = &name
			taller.Root.Height = sr.Root.Height + 1
			w.Store.TrimLog()
			err = count("LoadMast of a version with a key-less top node (one level taller than canonical)", 1, func() error { w.Load(&taller, nil, nil, false); return nil })
		case "openlegacy":
			// a root record as written before the node-format field existed (or one that went through JSON)
			viaJSON := true
			err = count("LoadMast of a root record that went through JSON", 1, func() error { _, e := w.Load(sr, nil, nil, viaJSON); return e })
		case "getkeysonly":
			// a read-only opening that names no value type (RemoteConfig without ValuesLike): lookups are still lookups,
			// whatever destination the caller hands in
			if m, _ := c.Cfg.Codec(); m != nil {
				continue
			}
			rc := w.RemoteConfig(w.Store, nil)
			rc.ValuesLike, rc.UnmarshalerUsesRegisteredTypes = nil, false
			root := sr.Root
			var km *mast.Mast
			if e := count("LoadMast without ValuesLike", 1, func() error { var e error; km, e = root.LoadMast(core.Ctx, rc); return e }); e != nil {
				if e == errAbort {
					continue // such an opening being refused is not this property's subject
				}
				return e
			}
			k2 := key
			if pk, ok := present(); ok && pr.K%4 != 0 {
				k2 = w.Pool[pk]
			}
			var dst interface{}
			if zv := c.Cfg.ZeroVal(); zv != nil && pr.K%3 != 0 {
				dst = reflect.New(reflect.TypeOf(zv)).Interface()
			} else if pr.K%3 == 0 {
				var v interface{}
				dst = &v
			} else {
				var typed string
				dst = &typed
			}
			mark := w.Store.Mark()
			_ = core.Safely("Get", func() error { _, e := km.Get(core.Ctx, k2, dst); return e })
			n := countLoads(w, mark)
			w.Store.TrimLog()
			if n > h+1 {
				err = fmt.Errorf("%s: on an opening without ValuesLike Get(%v, %T) read %d nodes, bound is %d", desc, k2, dst, n, h+1)
			}
		case "getwrongtype":
			// a lookup with a key of another type than the tree's keys: whatever it answers, it is a lookup
			var wrong interface{}
			switch k := key.(type) {
			case int:
				wrong = int64(k)
			case int64:
				wrong = int(k)
			case uint:
				wrong = uint64(k)
			case uint64:
				wrong = uint(k)
			case string:
				wrong = []byte(k)
			case []byte:
				wrong = string(k)
			default:
				continue // user key types decide themselves what they accept
			}
			mark := w.Store.Mark()
			var v interface{}
			_ = core.Safely("Get", func() error { _, e := lt.M.Get(core.Ctx, wrong, &v); return e })
			n := countLoads(w, mark)
			w.Store.TrimLog()
			if n > h+1 {
				err = fmt.Errorf("%s: Get(%T %v) read %d nodes, bound is %d", desc, wrong, wrong, n, h+1)
			}
		case "openbad":
			// an open that is refused (reversed key order) still reads at most the top node
			w2 := *w
			def := mast.DefaultKeyCompare(json.Marshal)
			sign := -1
			if c.Cfg.Cmp == "reversed" {
				sign = 1 // the tree was written in the reversed order: the default order is the wrong one for it
			}
			w2.KeyCompare = func(a, b interface{}) (int, error) { r, e := def(a, b); return sign * r, e }
			err = count("LoadMast with a reversed KeyCompare (refused or not)", 1, func() error { w2.Load(sr, nil, nil, false); return nil })
		case "cursor":
			err = count("Cursor", 1, func() error { _, e := lt.M.Cursor(core.Ctx); return e })
		case "min", "max", "ceil", "forward", "backward":
			var cur *mast.Cursor
			if e := core.Safely("Cursor", func() error { var e error; cur, e = lt.M.Cursor(core.Ctx); return e }); e != nil {
				o.Label("aborted:base-failure")
				return nil
			}
			w.Store.TrimLog()
			bound := -1
			if large {
				bound = sublinearCap
			}
			switch pr.Op {
			case "min":
				err = count("Cursor.Min", bound, func() error { return cur.Min(core.Ctx) })
			case "max":
				err = count("Cursor.Max", bound, func() error { return cur.Max(core.Ctx) })
			case "ceil":
				err = count(fmt.Sprintf("Cursor.Ceil(%v)", key), bound, func() error { return cur.Ceil(core.Ctx, key) })
			default:
				if e := core.Safely("Ceil", func() error { return cur.Ceil(core.Ctx, key) }); e != nil {
					o.Label("aborted:base-failure")
					return nil
				}
				w.Store.TrimLog()
				if pr.Op == "forward" {
					err = count("Cursor.Forward (single move)", bound, func() error { return cur.Forward(core.Ctx) })
				} else {
					err = count("Cursor.Backward (single move)", bound, func() error { return cur.Backward(core.Ctx) })
				}
			}
		case "seekfirst":
			bound := -1
			if large {
				bound = sublinearCap
			}
			err = count(fmt.Sprintf("SeekIter(%v) stopped at its first entry", key), bound, func() error {
				return lt.M.SeekIter(core.Ctx, key, func(k, v interface{}) error { return mast.ErrIterDone })
			})
		}
		if err == errAbort {
			o.Label("aborted:base-failure")
			return nil
		}
		if err != nil {
			return err
		}
		o.Labelf("probe=%s", pr.Op)
	}
	_ = keys
	o.NonTrivial = h >= 2 && len(nodes) >= 4*(h+1)
	o.Labelf("height=%d", h)
	if large {
		o.Label("large-tree(sublinear-clause-checked)")
	}
	if c.Big == 0 {
		o.Labelf("key=%s", c.Cfg.Key)
		o.Labelf("bf=%d", c.Cfg.BF)
	}
	return nil
}

var errAbort = errors.New("abort case")

func init() {
	run.Register(run.Prop[C16Case]{
		ID:    "C16",
		Level: "exploration",
		Rule: "case = persisted tree (generated history over the key pools, bf 2-64, heights 0-5; plus an enumerated family of large trees of 600-2500 (thorough 40000) consecutive int keys at bf 2, 4 and 16, with absent keys of every layer below and above the stored range) re-opened WITHOUT cache for each of 1-8 probes (operation kind x key present/absent of any layer, incl. inserts of the highest-layer absent key below the minimum / anywhere and deletes of the highest-layer present key). Oracle: number of Persist.Load calls during the single API call (reading a node twice counts twice): LoadMast, Clone, Cursor() <= 1; Get <= h+1; Insert/Delete/failed Delete at unchanged height <= 2(h+1); further probes: Clone / MakeRoot of an opened-then-modified version, lookups with a key of another type, several lookups on one handle, legacy and over-tall root records, typed destinations on nil-valued trees, and lookups on an opening WITHOUT ValuesLike (<= h+1 as well); on trees with more than 10*(4(h+1)+4) nodes a single cursor move / Min / Max / Ceil / a SeekIter stopped at its first entry <= 4(h+1)+4 (a deliberately generous sub-linear cap). " +
			"Non-trivial = height >= 2 AND the tree has >= 4(h+1) nodes; distinct by case hash",
		Assumptions: []string{"each probe runs on a freshly opened tree so nothing is already in memory", "the un-numbered clause ('nothing else proportional to the tree') is checked with a generous sub-linear cap only on trees large enough to tell"},
		Gen:         genC16,
		Run:         runC16,
		Enumerate:   enumC16,
	})
}

// countLoads is the number of Persist.Load calls since mark: reading the same node twice is two reads.
func countLoads(w *core.World, mark int) int {
	n := 0
	for _, c := range w.Store.Since(mark) {
		if !c.Store {
			n++
		}
	}
	return n
}
