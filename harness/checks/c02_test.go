package checks

import (
	"errors"
	"fmt"

	"github.com/jrhy/mast"
	"pgregory.net/rapid"
	"verif/harness/core"
	"verif/harness/run"
)

// C02 — captured versions (clones, held cursors, persisted roots) never change.

type C02Case struct {
	Cfg  core.Config `json:"cfg"`
	Fill []core.Op   `json:"fill,omitempty"`
	Prog []core.Op   `json:"prog"`
}

const opCursor = "cursor" // open a cursor on Slot and hold it (implicit clone)
const opFreeze = "freeze" // clone Slot and keep the clone untouched as a captured version

func genC02(t *rapid.T, tier string) C02Case {
	c := C02Case{Cfg: core.GenConfig(t, tier, core.GenOpts{
		Caches:   []string{"none", "big", "big", "tiny1", "tiny2", "tiny3", "arc", "arc4"},
		Vals:     []string{core.VInt, core.VInt, core.VBytes, core.VStruct, core.VString, core.VLong, core.VTags, core.VPtr},
		BigOneIn: 20,
	})}
	c.Fill = core.GenFillCfg(t, c.Cfg, 30)
	maxOps := 50
	if tier == "thorough" {
		maxOps = 90
	}
	w := core.OpWeights{
		core.OpInsert: 20, core.OpInsertNew: 25, core.OpUpdate: 8, core.OpInsertSame: 2, core.OpDelete: 25, core.OpDeleteTop: 6,
		core.OpClone: 8, core.OpPersistFail: 2, core.OpPersist: 10, core.OpReload: 8, core.OpReloadJSON: 2, core.OpDrain: 1, core.OpGet: 2, core.OpInsertMax: 8, core.OpInsertMin: 3,
	}
	prog := core.GenProgram(t, core.WithBulk(w, c.Cfg), maxOps, 4)
	// sprinkle cursor/freeze captures
	n := rapid.IntRange(0, 4).Draw(t, "ncaptures")
	for i := 0; i < n; i++ {
		pos := rapid.IntRange(0, len(prog)).Draw(t, "capturepos")
		kind := rapid.SampledFrom([]string{opCursor, opFreeze}).Draw(t, "capturekind")
		op := core.Op{Kind: kind, Slot: rapid.IntRange(0, 3).Draw(t, "captureslot")}
		prog = append(prog[:pos], append([]core.Op{op}, prog[pos:]...)...)
	}
	// motifs: a version is extended at one of its ends, captured (clone, cursor or frozen clone) right away, and the capture
	// or the original is extended at the same end as its very next change
	nm := rapid.IntRange(0, 2).Draw(t, "nmotifs")
	for i := 0; i < nm; i++ {
		pos := rapid.IntRange(0, len(prog)).Draw(t, "motifpos")
		s1 := rapid.IntRange(0, 3).Draw(t, "motifslot")
		s2 := (s1 + 1 + rapid.IntRange(0, 2).Draw(t, "motifdst")) % 4
		end := rapid.SampledFrom([]string{core.OpInsertMax, core.OpInsertMax, core.OpInsertMin}).Draw(t, "motifend")
		capture := core.Op{Kind: core.OpClone, Slot: s1, Dst: s2}
		who := s2 // who is extended after the capture
		switch rapid.IntRange(0, 3).Draw(t, "motifcapture") {
		case 0:
			capture = core.Op{Kind: opCursor, Slot: s1}
			who = s1
		case 1:
			capture = core.Op{Kind: opFreeze, Slot: s1}
			who = s1
		}
		room := core.OpDeleteMax
		if end == core.OpInsertMin {
			room = core.OpDeleteMin
		}
		motif := []core.Op{{Kind: room, Slot: s1}, {Kind: room, Slot: s1}, {Kind: room, Slot: s1}, {Kind: room, Slot: s1}, {Kind: room, Slot: s1},
			{Kind: end, Slot: s1, K: 0, V: 1}, {Kind: end, Slot: s1, K: 0, V: 2}, capture, {Kind: end, Slot: who, K: 0, V: 3}, {Kind: end, Slot: who, K: 0, V: 4}}
		prog = append(prog[:pos], append(motif, prog[pos:]...)...)
	}
	c.Prog = prog
	return c
}

type heldCursor struct {
	c     *mast.Cursor
	model core.Model
	at    int
}

type frozen struct {
	t  *core.Tree
	at int
}

func walkCursor(w *core.World, hc *heldCursor) error {
	var got []core.KV
	err := core.Safely("held cursor walk", func() error {
		if err := hc.c.Min(core.Ctx); err != nil {
			return err
		}
		for i := 0; i <= len(hc.model)+2; i++ {
			k, v, ok := hc.c.Get()
			if !ok {
				break
			}
			got = append(got, core.KV{K: k, V: v})
			if err := hc.c.Forward(core.Ctx); err != nil {
				return err
			}
		}
		return nil
	})
	if err != nil {
		return err
	}
	keys := hc.model.Keys()
	if len(got) != len(keys) {
		return fmt.Errorf("cursor opened at step %d yields %d entries, the version it captured had %d (%s)", hc.at, len(got), len(keys), w.DescribeModel(hc.model))
	}
	for i, ki := range keys {
		if w.Cfg.RefCompare(got[i].K, w.Pool[ki]) != 0 || !core.EqualVal(got[i].V, w.Cfg.MakeVal(hc.model[ki])) {
			return fmt.Errorf("cursor opened at step %d: entry %d is %v=%v, captured version had %v=%v", hc.at, i, got[i].K, got[i].V, w.Pool[ki], w.Cfg.MakeVal(hc.model[ki]))
		}
	}
	return nil
}

func runC02(c C02Case, o *run.Obs) error {
	w := core.NewWorld(c.Cfg)
	m, err := core.NewMachine(w, 4)
	if err != nil {
		o.Label("aborted:base-failure")
		return nil
	}
	var cursors []*heldCursor
	var frozens []frozen
	sharedMut := 0
	m.AfterMutation = func(si int, t *core.Tree) error {
		live := 0
		for _, s := range m.Slots {
			if s != nil {
				live++
			}
		}
		if (live >= 2 || len(m.Roots) > 0 || len(cursors) > 0 || len(frozens) > 0) && t.M.Height() >= 1 {
			sharedMut++
		}
		return nil
	}
	for _, op := range c.Fill {
		if err := m.Step(op); err != nil && !errors.Is(err, core.ErrSkipped) {
			o.Label("aborted:base-failure")
			return nil
		}
	}
	checkCaptured := func(step int, op core.Op, mutatedSlot int) error {
		for i, t := range m.Slots {
			if t == nil || i == mutatedSlot {
				continue
			}
			if err := w.Check(t); err != nil {
				return fmt.Errorf("step %d %s: version in slot %d changed although slot %d was operated on: %w", step, op, i, mutatedSlot, err)
			}
		}
		for _, f := range frozens {
			if err := w.Check(f.t); err != nil {
				return fmt.Errorf("step %d %s: clone captured at step %d changed: %w", step, op, f.at, err)
			}
		}
		roots := m.Roots
		if len(roots) > 4 {
			roots = roots[len(roots)-4:]
		}
		for ri, sr := range roots {
			for pass, cache := range []mast.NodeCache{w.Cache, nil} {
				if pass == 0 && cache == nil {
					continue
				}
				t, err := w.Load(sr, nil, cache, false)
				if err != nil {
					return fmt.Errorf("step %d %s: persisted root #%d no longer loads (cache pass %d): %w", step, op, ri, pass, err)
				}
				if err := w.CompareContents(t.M, sr.Model); err != nil {
					return fmt.Errorf("step %d %s: persisted root #%d changed (cache pass %d): %w", step, op, ri, pass, err)
				}
			}
		}
		return nil
	}
	for i, op := range c.Prog {
		step := i + 1
		switch op.Kind {
		case opCursor, opFreeze:
			si := op.Slot % len(m.Slots)
			if m.Slots[si] == nil {
				si = 0
			}
			t := m.Slots[si]
			if op.Kind == opCursor {
				var cur *mast.Cursor
				err := core.Safely("Cursor", func() error {
					var e error
					cur, e = t.M.Cursor(core.Ctx)
					return e
				})
				if err != nil {
					o.Label("aborted:base-failure")
					return nil
				}
				cursors = append(cursors, &heldCursor{c: cur, model: t.Model.Clone(), at: step})
			} else {
				cl, err := w.Clone(t)
				if err != nil {
					o.Label("aborted:base-failure")
					return nil
				}
				frozens = append(frozens, frozen{t: cl, at: step})
			}
			continue
		}
		si := op.Slot % len(m.Slots)
		if m.Slots[si] == nil {
			si = 0
		}
		if err := m.Step(op); err != nil {
			if errors.Is(err, core.ErrSkipped) {
				continue
			}
			// the operated tree itself misbehaved: that is map semantics (C01), not this property - unless the same
			// operation also changed a version that was captured before it, which is exactly this property
			if cerr := checkCaptured(step, op, si); cerr != nil {
				return fmt.Errorf("[%s] %w", c.Cfg, cerr)
			}
			o.Label("aborted:base-failure")
			return nil
		}
		if err := checkCaptured(step, op, si); err != nil {
			return fmt.Errorf("[%s] %w", c.Cfg, err)
		}
	}
	for _, hc := range cursors {
		if err := walkCursor(w, hc); err != nil {
			return fmt.Errorf("[%s] %w", c.Cfg, err)
		}
	}
	hits := 0
	if w.Counting != nil {
		hits, _, _ = w.Counting.Stats()
	}
	o.NonTrivial = sharedMut >= 3 && (w.Cache == nil || hits > 0)
	o.Labelf("cache=%s", c.Cfg.Cache)
	o.Labelf("key=%s", c.Cfg.Key)
	o.Labelf("maxheight=%d", m.Ev.MaxHeight)
	if len(cursors) > 0 {
		o.Label("held-cursor")
	}
	if len(frozens) > 0 {
		o.Label("frozen-clone")
	}
	if len(m.Roots) > 0 {
		o.Label("retained-root")
	}
	if hits > 0 {
		o.Label("cache-served-nodes")
	}
	if m.Ev.MutAfterReload > 0 {
		o.Label("mutation-after-reload")
	}
	return nil
}

func init() {
	run.Register(run.Prop[C02Case]{
		ID:    "C02",
		Level: "exploration",
		Rule: "case = configuration + fill + program of <=50 (quick) / <=90 (thorough) ops over 4 version slots sharing one store and one cache (none/unbounded/FIFO-evicting 1-3/ARC), with clones, frozen clones, held cursors and retained roots; after EVERY op every other slot, every frozen clone and the last 4 retained roots (reloaded through the shared cache and cache-less) are compared with the model snapshot taken at capture; held cursors are walked at the end. " +
			"Non-trivial = >=3 mutations at height>=1 while another captured version existed AND (no cache configured OR the cache served at least one node); distinct by case hash",
		Assumptions: []string{"a failure of the operated tree itself (map semantics) aborts the case without verdict: that is C01's subject", "held cursors are read with Min/Forward/Get only"},
		Gen:         genC02,
		Run:         runC02,
	})
}
