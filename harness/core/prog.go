package core

import (
	"fmt"

	"pgregory.net/rapid"
	"verif/harness/ref"
)

// Op is one step of a history. Key selectors are resolved when the op is
// interpreted, so programs stay meaningful under shrinking:
//   - "present" ops pick the (K mod #present)-th present key of the slot's model
//   - "absent"  ops pick the (K mod #absent)-th absent pool key
//   - others use pool key K mod len(pool)
type Op struct {
	Kind string `json:"op"`
	Slot int    `json:"slot,omitempty"`
	Dst  int    `json:"dst,omitempty"`
	K    int    `json:"k,omitempty"`
	V    int    `json:"v,omitempty"`
	N    int    `json:"n,omitempty"`
	// Raw: K is a literal index (into the pool / the sorted present keys) even in a big key universe
	Raw bool `json:"raw,omitempty"`
}

const (
	OpInsert     = "insert"     // insert/update pool key K with value V
	OpInsertNew  = "insertnew"  // insert an absent key
	OpUpdate     = "update"     // new value for a present key
	OpInsertSame = "insertsame" // re-insert a present key with its current value
	OpDelete     = "delete"     // delete a present key with its value
	OpDeleteTop  = "deletetop"  // delete the present key of the highest layer (K odd: the largest such key, else the smallest)
	OpDelWrong   = "delwrong"   // delete a present key with a non-matching value: must fail
	OpDelAbsent  = "delabsent"  // delete an absent key: must fail
	OpGet        = "get"        // lookup pool key K
	OpSize       = "size"
	OpIter       = "iter"
	OpIterStop   = "iterstop" // iterate, stop with ErrIterDone after N entries
	OpClone      = "clone"    // clone Slot into Dst
	OpPersist    = "persist"  // MakeRoot on Slot, keep the root
	OpReload     = "reload"   // replace Slot by a tree loaded from root N (mod #roots)
	OpReloadJSON = "reloadjson"
	OpDrain      = "drain" // delete every entry (down to the emptied tree)
	// OpPersistFail: MakeRoot while the N-th Store call of that flush fails (N>=1). If the flush makes
	// fewer Store calls it simply succeeds and counts as an ordinary persist.
	OpPersistFail = "persistfail"
	// OpBulkIns inserts up to N pool keys K, K+stride, K+2*stride, ... (mod pool size; stride derived from V);
	// OpBulkDel deletes up to N present keys picked the same way from the sorted present keys.
	OpBulkIns = "bulkins"
	OpBulkDel = "bulkdel"
	// OpInsertMax inserts the (K mod 3 + 1)-th absent key above the largest present key (an append at the end);
	// OpInsertMin the mirror image below the smallest present key
	OpInsertMax = "insertmax"
	OpInsertMin = "insertmin"
	// OpDeleteMax / OpDeleteMin delete the largest / smallest present key
	OpDeleteMax = "deletemax"
	OpDeleteMin = "deletemin"
)

// bulkStrides are primes; the one used is the first that does not divide the pool size.
var bulkStrides = []int{1, 7, 13, 101, 37, 3, 211, 17}

func bulkStride(v, n int) int {
	if n <= 1 {
		return 1
	}
	for i := 0; i < len(bulkStrides); i++ {
		s := bulkStrides[mod(v+i, len(bulkStrides))]
		if s == 1 || n%s != 0 {
			return s
		}
	}
	return 1
}

// PresentKey resolves a present-key selector; ok=false when the model is empty.
func PresentKey(m Model, sel int) (int, bool) {
	if len(m) == 0 {
		return 0, false
	}
	ks := m.Keys()
	return ks[mod(sel, len(ks))], true
}

// AbsentKey resolves an absent-key selector.
func AbsentKey(m Model, poolLen, sel int) (int, bool) {
	n := poolLen - len(m)
	if n <= 0 {
		return 0, false
	}
	j := mod(sel, n)
	for i := 0; i < poolLen; i++ {
		if _, ok := m[i]; !ok {
			if j == 0 {
				return i, true
			}
			j--
		}
	}
	return 0, false
}

func mod(a, n int) int {
	a %= n
	if a < 0 {
		a += n
	}
	return a
}

// ---- generators -------------------------------------------------------------

var (
	quickBFs    = []uint{2, 3, 4, 5, 16}
	thoroughBFs = []uint{2, 2, 3, 3, 4, 5, 7, 16, 64}
	Formats     = []string{ref.FormatBinary, ref.FormatV1}
	CacheKinds  = []string{"none", "big", "tiny1", "tiny2", "tiny3", "arc", "arc4"}
)

// GenOpts narrows configuration generation.
type GenOpts struct {
	Keys       []string
	Vals       []string
	Caches     []string
	Marshalers []string
	BFs        []uint
	Formats    []string
	LKPool     int // size of the LK pool (default 24..40)
	NoCustomV1 bool
	// NoReversed: never configure the reversed key order (checks whose oracle is tied to the default order)
	NoReversed bool
	// BigOneIn n > 0: one configuration in n gets a dense key universe of 150-900 keys (Config.Big)
	BigOneIn int
}

// GenConfig draws a configuration.
func GenConfig(t *rapid.T, tier string, o GenOpts) Config {
	bfs := o.BFs
	if bfs == nil {
		bfs = quickBFs
		if tier == "thorough" {
			bfs = thoroughBFs
		}
	}
	keys := o.Keys
	if keys == nil {
		keys = []string{KLK, KLK, KLK, KInt, KInt64, KUint, KUint64, KString, KBytes, KStruct, KInt32, KUint16, KNamed}
	}
	vals := o.Vals
	if vals == nil {
		vals = ValKinds
	}
	caches := o.Caches
	if caches == nil {
		caches = CacheKinds
	}
	marsh := o.Marshalers
	if marsh == nil {
		marsh = []string{"json", "json", "json", "custom", "customz"}
	}
	formats := o.Formats
	if formats == nil {
		formats = Formats
	}
	c := Config{
		BF:        rapid.SampledFrom(bfs).Draw(t, "bf"),
		Format:    rapid.SampledFrom(formats).Draw(t, "format"),
		Key:       rapid.SampledFrom(keys).Draw(t, "key"),
		Val:       rapid.SampledFrom(vals).Draw(t, "val"),
		Cache:     rapid.SampledFrom(caches).Draw(t, "cache"),
		Marshaler: rapid.SampledFrom(marsh).Draw(t, "marshaler"),
		Extra:     true,
	}
	switch rapid.IntRange(0, 7).Draw(t, "cmp") {
	case 0:
		c.Cmp = "scaled"
	case 1:
		if !o.NoReversed {
			c.Cmp = "reversed"
		}
	}
	if c.Val == VNil {
		c.Format, c.Marshaler = ref.FormatBinary, "json"
	}
	if c.Val == VFloat {
		c.Marshaler = "json" // the harness' custom codecs encode "the zero value" specially and would not keep the two zeros apart
	}
	if o.NoCustomV1 && c.Format == ref.FormatV1 {
		c.Marshaler = "json"
	}
	big := 0
	if o.BigOneIn > 0 && rapid.IntRange(1, o.BigOneIn).Draw(t, "big") == 1 {
		big = rapid.SampledFrom([]int{150, 300, 300, 600, 600, 900}).Draw(t, "bigsize")
		c.BF = rapid.SampledFrom([]uint{2, 3, 4, 4, 5, 16, 16, 16}).Draw(t, "bigbf")
		if c.Val == VLong {
			c.Val = VString
		}
		c.Big = big
	}
	if c.Key == KLK {
		n := o.LKPool
		if n == 0 {
			n = rapid.IntRange(8, 40).Draw(t, "lkpool")
		}
		if big > 0 {
			n = big
			c.LKLayers = GenBigLayerTable(t, n, c.BF)
		} else {
			c.LKLayers = GenLayerTable(t, n)
		}
	}
	return c
}

// IsBig reports whether the configuration has a key universe of hundreds of keys.
func (c Config) IsBig() bool { return c.Big > 0 }

// GenBigLayerTable draws layers for a universe of hundreds of keys: geometric with the branch factor as its
// base (what hashing gives), a smaller base (taller trees), or flat with a few towers.
func GenBigLayerTable(t *rapid.T, n int, bf uint) []uint8 {
	base := rapid.SampledFrom([]int{int(bf), int(bf), 3, 2}).Draw(t, "layerbase")
	flat := rapid.IntRange(0, 5).Draw(t, "flat") == 0
	out := make([]uint8, n)
	bits := rapid.SliceOfN(rapid.Uint32(), n, n).Draw(t, "layerbits")
	for i := range out {
		x := bits[i]
		if flat {
			if x%97 == 0 {
				out[i] = uint8(1 + x/97%5)
			}
			continue
		}
		for l := 0; l < 11 && x%uint32(base) == 0; l++ {
			out[i]++
			x /= uint32(base)
		}
	}
	return out
}

// GenLayerTable draws a layer per key: mostly geometric with a generated
// base, so that trees of 3-5 levels with pass-through nodes are common.
func GenLayerTable(t *rapid.T, n int) []uint8 {
	style := rapid.IntRange(0, 4).Draw(t, "layerstyle")
	tower := -1
	if style == 4 {
		// flat with a single tower at an edge or anywhere: a top node with one entry and one-sided subtrees
		tower = rapid.SampledFrom([]int{0, n - 1, rapid.IntRange(0, n-1).Draw(t, "towerpos")}).Draw(t, "tower")
	}
	out := make([]uint8, n)
	for i := range out {
		switch style {
		case 0: // geometric p=1/2
			out[i] = geo(t, 2, 5)
		case 1: // geometric p=1/3
			out[i] = geo(t, 3, 5)
		case 2: // mostly flat with rare spikes (pass-through chains)
			if rapid.IntRange(0, 7).Draw(t, "spike") == 0 {
				out[i] = uint8(rapid.IntRange(1, 5).Draw(t, "l"))
			}
		case 4:
			if i == tower {
				out[i] = uint8(rapid.IntRange(2, 5).Draw(t, "towerheight"))
			} else {
				out[i] = geo(t, 3, 1)
			}
		default: // uniform small
			out[i] = uint8(rapid.IntRange(0, 3).Draw(t, "l"))
		}
	}
	return out
}

func geo(t *rapid.T, base, max int) uint8 {
	var l uint8
	for int(l) < max && rapid.IntRange(0, base-1).Draw(t, "g") == 0 {
		l++
	}
	return l
}

// OpWeights is a weighted list of op kinds.
type OpWeights map[string]int

var DefaultWeights = OpWeights{
	OpInsert: 30, OpInsertNew: 30, OpUpdate: 9, OpInsertSame: 4, OpDelete: 30, OpDeleteTop: 5,
	OpDelWrong: 3, OpDelAbsent: 3, OpGet: 8, OpSize: 2, OpIter: 3, OpIterStop: 2,
	OpClone: 6, OpPersist: 12, OpReload: 9, OpReloadJSON: 4, OpDrain: 1, OpInsertMax: 5, OpInsertMin: 2,
}

func weightedKinds(w OpWeights) []string {
	var out []string
	for _, k := range []string{OpInsert, OpInsertNew, OpUpdate, OpInsertSame, OpDelete, OpDeleteTop, OpDelWrong, OpDelAbsent,
		OpGet, OpSize, OpIter, OpIterStop, OpClone, OpPersist, OpReload, OpReloadJSON, OpDrain, OpPersistFail, OpBulkIns, OpBulkDel, OpInsertMax, OpInsertMin, OpDeleteMax, OpDeleteMin} {
		for i := 0; i < w[k]; i++ {
			out = append(out, k)
		}
	}
	return out
}

// GenProgram draws a program of at most maxOps operations over nslots slots.
func GenProgram(t *rapid.T, w OpWeights, maxOps, nslots int) []Op {
	kinds := weightedKinds(w)
	opGen := rapid.Custom(func(t *rapid.T) Op {
		op := Op{Kind: rapid.SampledFrom(kinds).Draw(t, "op")}
		if nslots > 1 {
			op.Slot = rapid.IntRange(0, nslots-1).Draw(t, "slot")
		}
		switch op.Kind {
		case OpInsert, OpInsertNew, OpUpdate:
			op.K = rapid.IntRange(0, 63).Draw(t, "k")
			op.V = rapid.IntRange(0, 5).Draw(t, "v")
		case OpInsertMax, OpInsertMin:
			op.K = rapid.IntRange(0, 2).Draw(t, "k")
			op.V = rapid.IntRange(0, 5).Draw(t, "v")
		case OpInsertSame, OpDelete, OpDeleteTop, OpDelAbsent, OpGet:
			op.K = rapid.IntRange(0, 63).Draw(t, "k")
		case OpDelWrong:
			op.K = rapid.IntRange(0, 63).Draw(t, "k")
			op.V = rapid.IntRange(0, 5).Draw(t, "v")
		case OpIterStop:
			op.N = rapid.IntRange(0, 6).Draw(t, "n")
		case OpClone:
			if nslots > 1 {
				op.Dst = rapid.IntRange(0, nslots-1).Draw(t, "dst")
			}
		case OpReload, OpReloadJSON:
			op.N = rapid.IntRange(0, 7).Draw(t, "root")
		case OpPersistFail:
			op.N = rapid.IntRange(1, 5).Draw(t, "failnth")
		case OpBulkIns, OpBulkDel:
			op.K = rapid.IntRange(0, 63).Draw(t, "k")
			op.V = rapid.IntRange(0, 7).Draw(t, "stride")
			op.N = rapid.IntRange(1, 400).Draw(t, "count")
		}
		return op
	})
	n := rapid.IntRange(1, maxOps).Draw(t, "nops")
	return rapid.SliceOfN(opGen, n, n).Draw(t, "program")
}

// FillOps returns inserts of n distinct pool keys chosen by the generator, as
// a quick way to reach a target size before the interesting part of a history.
func GenFill(t *rapid.T, poolLen int, maxN int) []Op {
	n := rapid.IntRange(0, maxN).Draw(t, "fill")
	if n > poolLen {
		n = poolLen
	}
	perm := rapid.Permutation(indices(poolLen)).Draw(t, "fillkeys")
	ops := make([]Op, 0, n)
	for _, ki := range perm[:n] {
		ops = append(ops, Op{Kind: OpInsert, K: ki, V: ki % 4})
	}
	return ops
}

// GenFillCfg is GenFill for configurations that may have a big key universe: those get one bulk insert of
// a generated size (up to the whole universe) instead of a list of single inserts.
func GenFillCfg(t *rapid.T, c Config, maxN int) []Op {
	if !c.IsBig() {
		return GenFill(t, len(c.Pool()), maxN)
	}
	n := len(c.Pool())
	return []Op{{Kind: OpBulkIns, K: rapid.IntRange(0, 63).Draw(t, "fillstart"), V: rapid.IntRange(0, 7).Draw(t, "fillstride"),
		N: rapid.IntRange(n/4, n).Draw(t, "fillcount")}}
}

// WithBulk returns the weights plus bulk inserts/deletes when the configuration has a big key universe.
func WithBulk(w OpWeights, c Config) OpWeights {
	if !c.IsBig() {
		return w
	}
	total := 0
	for _, v := range w {
		total += v
	}
	out := OpWeights{}
	for k, v := range w {
		out[k] = v
	}
	out[OpBulkIns] = 1 + total/25
	out[OpBulkDel] = 1 + total/25
	return out
}

func indices(n int) []int {
	out := make([]int, n)
	for i := range out {
		out[i] = i
	}
	return out
}

func (o Op) String() string {
	return fmt.Sprintf("%s(slot=%d,dst=%d,k=%d,v=%d,n=%d)", o.Kind, o.Slot, o.Dst, o.K, o.V, o.N)
}
