package core

import (
	"errors"
	"fmt"

	"github.com/jrhy/mast"
	"verif/harness/env"
)

// Events counts what a history actually did.
type Events struct {
	Inserts, Updates, Deletes, FailedDeletes int
	Persists, Reloads, Clones                int
	MutAfterReload                           int
	Emptied, ReusedAfterEmpty                int
	MaxHeight                                uint8
	MaxSize                                  int
	Steps                                    int
	HeightDrops                              int // deletes after which the height was lower
	MergingDeletes                           int // deletes of a key of layer>=1 in a tree of height>=1
	PersistHeights                           []uint8
	FailedPersists                           int
}

// Machine interprets programs over version slots.
type Machine struct {
	W     *World
	Slots []*Tree
	Roots []*SavedRoot
	Ev    Events
	// AfterMutation is called after every successful mutating op on a slot.
	AfterMutation func(slot int, t *Tree) error
	// BeforePersist is called right before MakeRoot.
	BeforePersist func(slot int, t *Tree)
	// OnPersist is called after every successful MakeRoot.
	OnPersist func(slot int, t *Tree, sr *SavedRoot) error
	// OnReplace is called when a slot's tree is replaced (clone into / reload).
	OnReplace func(slot int, old, new *Tree)
	// Custom, when set, sees every op first; it returns handled=true for op kinds it interprets itself.
	Custom func(op Op) (handled bool, err error)
	// FullCheckEvery n>0: full comparison of the touched slot every n steps.
	FullCheckEvery int
	// CheckReadOnly: a full comparison after every read-only op.
	CheckReadOnly bool
	reloaded      map[*Tree]bool
	wasEmptied    map[*Tree]bool
}

// NewMachine creates a machine with nslots slots; slot 0 holds a fresh tree.
func NewMachine(w *World, nslots int) (*Machine, error) {
	m := &Machine{W: w, Slots: make([]*Tree, nslots), reloaded: map[*Tree]bool{}, wasEmptied: map[*Tree]bool{}}
	t, err := w.NewTree()
	if err != nil {
		return nil, err
	}
	m.Slots[0] = t
	return m, nil
}

func (m *Machine) slot(i int) (int, *Tree) {
	i = mod(i, len(m.Slots))
	if m.Slots[i] == nil {
		i = 0
	}
	return i, m.Slots[i]
}

// sel spreads a key selector (programs draw them from 0..63) over a big key universe.
func (m *Machine) sel(op Op) int {
	k := op.K
	if m.W.Cfg.IsBig() && !op.Raw {
		return k*7919 + k/7
	}
	return k
}

// ErrSkipped marks an op that had no applicable target (e.g. delete on an empty tree).
var ErrSkipped = errors.New("op skipped")

func (m *Machine) mutated(si int, t *Tree) error {
	if m.reloaded[t] {
		m.Ev.MutAfterReload++
	}
	if h := t.M.Height(); h > m.Ev.MaxHeight {
		m.Ev.MaxHeight = h
	}
	if len(t.Model) > m.Ev.MaxSize {
		m.Ev.MaxSize = len(t.Model)
	}
	if len(t.Model) == 0 {
		m.Ev.Emptied++
		m.wasEmptied[t] = true
	} else if m.wasEmptied[t] {
		m.Ev.ReusedAfterEmpty++
		delete(m.wasEmptied, t)
	}
	if m.AfterMutation != nil {
		return m.AfterMutation(si, t)
	}
	return nil
}

// Step applies one op to mast and to the model and checks the op's own
// result against the model. A returned error (other than ErrSkipped) means
// map semantics were broken by that call.
func (m *Machine) Step(op Op) error {
	w := m.W
	if m.Custom != nil {
		if handled, err := m.Custom(op); handled {
			m.Ev.Steps++
			return err
		}
	}
	si, t := m.slot(op.Slot)
	m.Ev.Steps++
	poolLen := len(w.Pool)
	readOnly := false
	var touched = -1
	switch op.Kind {
	case OpInsert, OpInsertNew, OpUpdate, OpInsertSame, OpInsertMax, OpInsertMin:
		var ki int
		var ok = true
		vn := op.V
		switch op.Kind {
		case OpInsertMax, OpInsertMin:
			keys := t.Model.Keys()
			ki, ok = -1, false
			if op.Kind == OpInsertMax {
				from := 0
				if len(keys) > 0 {
					from = keys[len(keys)-1] + 1
				}
				if c := from + op.K%3; c < poolLen {
					ki, ok = c, true
				} else if from < poolLen {
					ki, ok = from, true
				}
			} else if len(keys) > 0 && keys[0] > 0 {
				ki, ok = keys[0]-1-op.K%3, true
				if ki < 0 {
					ki = 0
				}
			}
		case OpInsert:
			ki = mod(m.sel(op), poolLen)
		case OpInsertNew:
			ki, ok = AbsentKey(t.Model, poolLen, m.sel(op))
		case OpUpdate:
			ki, ok = PresentKey(t.Model, m.sel(op))
			for ok && w.Cfg.Val != VNil && w.Cfg.SameVal(t.Model[ki], vn) {
				vn = vn + 1
			}
		case OpInsertSame:
			ki, ok = PresentKey(t.Model, m.sel(op))
			if ok {
				vn = t.Model[ki]
			}
		}
		if !ok {
			return ErrSkipped
		}
		_, present := t.Model[ki]
		if err := w.Insert(t, ki, vn); err != nil {
			return err
		}
		if present {
			m.Ev.Updates++
		} else {
			m.Ev.Inserts++
		}
		touched = ki
		if err := m.mutated(si, t); err != nil {
			return err
		}
	case OpBulkIns:
		stride := bulkStride(op.V, poolLen)
		start := mod(m.sel(op), poolLen)
		for i := 0; i < op.N && i < poolLen; i++ {
			ki := (start + i*stride) % poolLen
			_, present := t.Model[ki]
			if err := w.Insert(t, ki, (ki+op.V)%4); err != nil {
				return err
			}
			if present {
				m.Ev.Updates++
			} else {
				m.Ev.Inserts++
			}
			if h := t.M.Height(); h > m.Ev.MaxHeight {
				m.Ev.MaxHeight = h
			}
		}
		if err := m.mutated(si, t); err != nil {
			return err
		}
	case OpBulkDel:
		if len(t.Model) == 0 {
			return ErrSkipped
		}
		keys := t.Model.Keys()
		stride := bulkStride(op.V, len(keys))
		start := mod(m.sel(op), len(keys))
		hBefore := t.M.Height()
		for i := 0; i < op.N && i < len(keys); i++ {
			ki := keys[(start+i*stride)%len(keys)]
			if _, ok := t.Model[ki]; !ok {
				continue
			}
			if err := w.Delete(t, ki); err != nil {
				return err
			}
			m.Ev.Deletes++
		}
		if t.M.Height() < hBefore {
			m.Ev.HeightDrops++
		}
		if err := m.mutated(si, t); err != nil {
			return err
		}
	case OpDelete, OpDeleteTop, OpDeleteMax, OpDeleteMin:
		ki, ok := PresentKey(t.Model, m.sel(op))
		if keys := t.Model.Keys(); ok && op.Kind == OpDeleteMax {
			ki = keys[len(keys)-1]
		} else if ok && op.Kind == OpDeleteMin {
			ki = keys[0]
		}
		if !ok {
			return ErrSkipped
		}
		if op.Kind == OpDeleteTop {
			best := -1
			for _, k := range t.Model.Keys() {
				if l := int(w.Cfg.RefLayer(w.Pool[k])); l > best || (l == best && op.K%2 == 1) {
					best, ki = l, k
				}
			}
		}
		hBefore := t.M.Height()
		if hBefore >= 1 && w.Cfg.RefLayer(w.Pool[ki]) >= 1 {
			m.Ev.MergingDeletes++
		}
		if err := w.Delete(t, ki); err != nil {
			return err
		}
		if t.M.Height() < hBefore {
			m.Ev.HeightDrops++
		}
		m.Ev.Deletes++
		touched = ki
		if err := m.mutated(si, t); err != nil {
			return err
		}
	case OpDrain:
		if len(t.Model) == 0 {
			return ErrSkipped
		}
		keys := t.Model.Keys()
		hBefore := t.M.Height()
		defer func() {
			if t.M.Height() < hBefore {
				m.Ev.HeightDrops++
			}
		}()
		start := mod(op.K, len(keys))
		for i := range keys {
			ki := keys[(start+i*7)%len(keys)]
			if _, ok := t.Model[ki]; !ok {
				// 7 may share a factor with len(keys); fall back to linear order below
				continue
			}
			if err := w.Delete(t, ki); err != nil {
				return err
			}
			m.Ev.Deletes++
		}
		for _, ki := range t.Model.Keys() {
			if err := w.Delete(t, ki); err != nil {
				return err
			}
			m.Ev.Deletes++
		}
		if err := m.mutated(si, t); err != nil {
			return err
		}
	case OpDelWrong:
		ki, ok := PresentKey(t.Model, m.sel(op))
		if !ok || w.Cfg.Val == VNil { // with nil-only values there is no non-matching value
			return ErrSkipped
		}
		vn := op.V
		for w.Cfg.SameVal(vn, t.Model[ki]) {
			vn++
		}
		if err := w.DeleteMustFail(t, ki, vn); err != nil {
			return err
		}
		m.Ev.FailedDeletes++
		readOnly = true
		touched = ki
	case OpDelAbsent:
		ki, ok := AbsentKey(t.Model, poolLen, m.sel(op))
		if !ok {
			return ErrSkipped
		}
		if err := w.DeleteMustFail(t, ki, 0); err != nil {
			return err
		}
		m.Ev.FailedDeletes++
		readOnly = true
		touched = ki
	case OpGet:
		touched = mod(m.sel(op), poolLen)
		readOnly = true
	case OpSize:
		readOnly = true
	case OpIter:
		if err := w.Check(t); err != nil {
			return err
		}
		readOnly = true
	case OpIterStop:
		n := 0
		err := Safely("Iter", func() error {
			return t.M.Iter(Ctx, func(k, v interface{}) error {
				if n >= op.N {
					return mast.ErrIterDone
				}
				n++
				return nil
			})
		})
		if err != nil {
			return fmt.Errorf("Iter stopped with ErrIterDone after %d entries failed: %w", op.N, err)
		}
		readOnly = true
	case OpClone:
		c, err := w.Clone(t)
		if err != nil {
			return err
		}
		di := mod(op.Dst, len(m.Slots))
		if di == si {
			di = (si + 1) % len(m.Slots)
		}
		if len(m.Slots) == 1 {
			di = 0
		}
		m.Ev.Clones++
		if m.reloaded[t] {
			m.reloaded[c] = true
		}
		if m.OnReplace != nil {
			m.OnReplace(di, m.Slots[di], c)
		}
		m.Slots[di] = c
		readOnly = true
	case OpPersist, OpPersistFail:
		if t.InMemory {
			return ErrSkipped
		}
		if m.BeforePersist != nil {
			m.BeforePersist(si, t)
		}
		if op.Kind == OpPersistFail {
			_, base := w.Store.Counters()
			nth := op.N
			if nth < 1 {
				nth = 1
			}
			w.Store.FailStore = func(i int, name string) bool { return i == base+nth }
		}
		sr, err := w.Persist(t)
		w.Store.FailStore = nil
		if err != nil && op.Kind == OpPersistFail && errors.Is(err, env.ErrInjected) {
			// the injected write failure surfaced: the tree must stay what it was (checked by the caller's invariants)
			m.Ev.FailedPersists++
			readOnly = true
			break
		}
		if err != nil {
			return err
		}
		m.Ev.Persists++
		m.Ev.PersistHeights = append(m.Ev.PersistHeights, sr.Root.Height)
		m.Roots = append(m.Roots, sr)
		if m.OnPersist != nil {
			if err := m.OnPersist(si, t, sr); err != nil {
				return err
			}
		}
		readOnly = true
	case OpReload, OpReloadJSON:
		if len(m.Roots) == 0 {
			return ErrSkipped
		}
		sr := m.Roots[mod(op.N, len(m.Roots))]
		nt, err := w.Load(sr, nil, w.Cache, op.Kind == OpReloadJSON)
		if err != nil {
			return fmt.Errorf("LoadMast of a root returned by MakeRoot failed: %w", err)
		}
		m.Ev.Reloads++
		m.reloaded[nt] = true
		if m.OnReplace != nil {
			m.OnReplace(si, m.Slots[si], nt)
		}
		m.Slots[si] = nt
		t = nt
		readOnly = true
	default:
		return fmt.Errorf("harness: unknown op %q", op.Kind)
	}
	_, t = m.slot(si)
	// the op's own observable result
	var size uint64
	if err := Safely("Size", func() error { size = t.M.Size(); return nil }); err != nil {
		return err
	}
	if size != uint64(len(t.Model)) {
		return fmt.Errorf("after %s: Size() = %d, model has %d live entries", op.Kind, size, len(t.Model))
	}
	if touched >= 0 {
		if err := w.Get(t, touched); err != nil {
			return fmt.Errorf("after %s: %w", op.Kind, err)
		}
	}
	if (readOnly && m.CheckReadOnly) || (m.FullCheckEvery > 0 && m.Ev.Steps%m.FullCheckEvery == 0) {
		if err := w.Check(t); err != nil {
			return fmt.Errorf("after %s: %w", op.Kind, err)
		}
	}
	return nil
}

// CheckAll compares every live slot with its model.
func (m *Machine) CheckAll() error {
	for i, t := range m.Slots {
		if t == nil {
			continue
		}
		if err := m.W.Check(t); err != nil {
			return fmt.Errorf("slot %d: %w", i, err)
		}
	}
	return nil
}

// AdoptMachine finishes the initialisation of a machine built around existing trees.
func AdoptMachine(m *Machine) *Machine {
	if m.reloaded == nil {
		m.reloaded = map[*Tree]bool{}
	}
	if m.wasEmptied == nil {
		m.wasEmptied = map[*Tree]bool{}
	}
	return m
}
