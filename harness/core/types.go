// Package core holds what the history-based checks share: key/value universes,
// configurations, the sorted-map model and a World that applies operations to
// real mast trees and to the model.
package core

import (
	"math"
	"bytes"
	"encoding/base64"
	"encoding/json"
	"fmt"
	"reflect"
	"sort"
	"sync"

	"github.com/jrhy/mast"
	"verif/harness/ref"
)

// Key kinds named by the properties.
const (
	KInt    = "int"
	KInt64  = "int64"
	KUint   = "uint"
	KUint64 = "uint64"
	KString = "string"
	KBytes  = "bytes"
	KLK     = "lk"     // user type implementing mast.Key with a generated layer table
	KStruct = "struct" // plain struct, ordered and layered by its marshaled bytes
	// narrow integer types have no case of their own in the default order: like structs they are ordered (and
	// layered) by their marshaled form, i.e. as decimal text ("10" < "100" < "9")
	KInt32  = "int32"
	KUint16 = "uint16"
	// KNamed: a user Key type whose underlying type is a plain integer (its own Layer and Order methods must be used,
	// not the rules for the built-in integer it is made of)
	KNamed = "namedint"
)

// NK is a named integer implementing mast.Key: ordered DESCENDING by value, layer from a small table.
type NK int

var nkLayers = [12]uint8{0, 0, 0, 1, 0, 0, 2, 0, 1, 0, 0, 3}

func nkLayer(k NK) uint8 {
	x := int(k) % 12
	if x < 0 {
		x += 12
	}
	return nkLayers[x]
}
func (k NK) Layer(branchFactor uint) uint8 { return nkLayer(k) }
func (k NK) Order(o mast.Key) int {
	ok := o.(NK)
	if k > ok {
		return -1
	} else if k < ok {
		return 1
	}
	return 0
}
func (k NK) RefLayer() uint8 { return nkLayer(k) }
func (k NK) RefRank() int64  { return -int64(k) }

// keep the old block end marker
var _ = KNamed
var (
	_ mast.Key = NK(0)
)

var KeyKinds = []string{KInt, KInt64, KUint, KUint64, KString, KBytes, KLK, KStruct, KInt32, KUint16, KNamed}

const (
	VInt    = "int"
	VString = "string"
	VBytes  = "bytes" // uncomparable
	VStruct = "struct"
	VLong   = "long" // strings whose marshaled length sits on the length-prefix boundaries (127/128/129, 255/256, 16384)

	VIface = "iface" // comparable struct type whose interface{} field holds an uncomparable slice
	VPtr   = "ptr"   // pointer values: equal by content, never by identity (a fresh pointer per call)
	// VNil: set-style use - every value is nil and the loader is given ValuesLike: nil (with
	// UnmarshalerUsesRegisteredTypes, as the repository's TestNilValues does); binary format only
	VNil = "nil"
	// VTags: a struct whose fields json decodes IN PLACE (a string slice that is omitted when empty, a map that is
	// merged into): a decoder that reuses its target across entries leaks one entry's fields into the next
	VTags = "tags"
)

// TV is the value type of VTags.
type TV struct {
	Name string
	Tags []string          `json:",omitempty"`
	Attr map[string]string `json:",omitempty"`
}

var ValKinds = []string{VInt, VString, VBytes, VStruct, VLong, VIface, VPtr, VNil, VTags}

// VFloat: float64 values including both zeros. The library decides with reflect.DeepEqual whether an Insert changes anything, so
// writing -0 over +0 (or the reverse) is a no-op today although the two encode differently; which zero a key holds after such a
// write is not pinned down by any statement, so the harness never overwrites one zero with the other (World.Insert re-inserts the
// present value instead; SameVal). Values read back are compared bit for bit. Only the checks that name it use this kind.
const VFloat = "float"

// ValKindsWithFloat is ValKinds plus VFloat.
var ValKindsWithFloat = append(append([]string{}, ValKinds...), VFloat, VFloat)

var floatVals = []float64{0, math.Copysign(0, -1), 0.5, -1.5, 1e21, 1e-7, -1, 3}

// SameVal reports whether value numbers a and b are the same value as far as Insert/Delete are concerned (reflect.DeepEqual).
func (c Config) SameVal(a, b int) bool {
	if a == b || c.Val == VNil {
		return true
	}
	return c.Val == VFloat && reflect.DeepEqual(c.MakeVal(a), c.MakeVal(b))
}

// SI is a struct value whose static type is comparable but whose dynamic contents are not.
type SI struct {
	A string
	X interface{}
}

// longLens are marshaled lengths (JSON string incl. quotes) of the "long" values.
var longLens = []int{125, 126, 127, 128, 129, 16384, 20000, 256}

// LK is a user key type: rank K, layer L (the same K always carries the same L within a case).
type LK struct {
	K int
	L uint8
}

func (k LK) Layer(branchFactor uint) uint8 { return k.L }
func (k LK) Order(o mast.Key) int {
	ok := o.(LK)
	if k.K < ok.K {
		return -1
	} else if k.K > ok.K {
		return 1
	}
	return 0
}
func (k LK) RefLayer() uint8 { return k.L }
func (k LK) RefRank() int64  { return int64(k.K) }

// SK is a struct key without methods.
type SK struct {
	A int
	B string
}

// SV is a struct value with an uncomparable field.
type SV struct {
	A string
	B []uint8
}

// Config selects a tree configuration.
type Config struct {
	BF        uint    `json:"bf"`
	Format    string  `json:"format"`
	Key       string  `json:"key"`
	Val       string  `json:"val"`
	Cache     string  `json:"cache"`     // none | big | tiny1..tiny3 | arc
	Marshaler string  `json:"marshaler"` // json | custom
	LKLayers  []uint8 `json:"lk_layers,omitempty"`
	// Cmp "scaled": the loader is given a KeyCompare that returns 3x the default result
	// (only the sign of a comparison is meaningful). Cmp "reversed": the tree is configured with the REVERSE of the
	// default order (a custom order over built-in key types); the key universe is then listed in that order.
	Cmp string `json:"cmp,omitempty"`
	// Big > 0: the key universe is a dense run of Big keys (instead of the ~60 hand-picked ones), so that
	// histories reach the heights that only sizes in the hundreds allow (height 2 at the default branch factor 16).
	Big int `json:"big,omitempty"`
	// Extra: the 64-bit key universes also hold the keys added later in this framework's life (neighbours above 2^53,
	// 2^60 and their negatives). Configurations recorded earlier - the golden vectors of C14, older replay files - do not set
	// it and keep the universe they were recorded with (keys are addressed by their index in the sorted universe).
	Extra bool `json:"extra,omitempty"`
}

func (c Config) String() string {
	s := fmt.Sprintf("bf=%d %s key=%s val=%s cache=%s marsh=%s", c.BF, c.Format, c.Key, c.Val, c.Cache, c.Marshaler)
	if c.Cmp != "" {
		s += " cmp=" + c.Cmp
	}
	if c.Big > 0 {
		s += fmt.Sprintf(" big=%d", c.Big)
	}
	return s
}

// ---- marshalers -----------------------------------------------------------

// customNode is how the custom codec writes a whole v1 node.
type customNode struct {
	K [][]byte
	V [][]byte
	L []string `json:",omitempty"`
}

// Codec returns the marshal/unmarshal pair of a configuration (nil,nil for default JSON).
func (c Config) Codec() (func(interface{}) ([]byte, error), func([]byte, interface{}) error) {
	if c.Marshaler != "custom" && c.Marshaler != "customz" {
		return nil, nil
	}
	keyT := reflect.TypeOf(c.ZeroKey())
	valT := reflect.TypeOf(c.ZeroVal())
	// "customz": like custom, but value number 0 has the empty byte string as its encoding
	// (as e.g. a default protobuf message has); Unmarshal of an empty input gives that value back
	emptyEnc := c.Marshaler == "customz"
	zeroVal := c.MakeVal(0)
	var marshal func(interface{}) ([]byte, error)
	var unmarshal func([]byte, interface{}) error
	marshal = func(x interface{}) ([]byte, error) {
		if n, ok := x.(mast.Node); ok {
			var cn customNode
			for i := range n.Key {
				kb, err := marshal(n.Key[i])
				if err != nil {
					return nil, err
				}
				vb, err := marshal(n.Value[i])
				if err != nil {
					return nil, err
				}
				cn.K = append(cn.K, kb)
				cn.V = append(cn.V, vb)
			}
			for _, l := range n.Link {
				s, _ := l.(string)
				cn.L = append(cn.L, s)
			}
			return json.Marshal(cn)
		}
		if emptyEnc && reflect.TypeOf(x) == valT && reflect.DeepEqual(x, zeroVal) {
			return []byte{}, nil
		}
		b, err := json.Marshal(x)
		if err != nil {
			return nil, err
		}
		return append([]byte{'#'}, b...), nil
	}
	unmarshal = func(b []byte, p interface{}) error {
		if n, ok := p.(*mast.Node); ok {
			var cn customNode
			if err := json.Unmarshal(b, &cn); err != nil {
				return err
			}
			n.Key = make([]interface{}, len(cn.K))
			n.Value = make([]interface{}, len(cn.V))
			for i := range cn.K {
				kp := reflect.New(keyT)
				if err := unmarshal(cn.K[i], kp.Interface()); err != nil {
					return err
				}
				n.Key[i] = kp.Elem().Interface()
			}
			for i := range cn.V {
				vp := reflect.New(valT)
				if err := unmarshal(cn.V[i], vp.Interface()); err != nil {
					return err
				}
				n.Value[i] = vp.Elem().Interface()
			}
			n.Link = nil
			if len(cn.L) > 0 {
				n.Link = make([]interface{}, len(cn.L))
				for i, l := range cn.L {
					if l != "" {
						n.Link[i] = l
					}
				}
			}
			return nil
		}
		if emptyEnc && len(b) == 0 && reflect.TypeOf(p) == reflect.PointerTo(valT) {
			reflect.ValueOf(p).Elem().Set(reflect.ValueOf(zeroVal))
			return nil
		}
		if len(b) == 0 || b[0] != '#' {
			return fmt.Errorf("custom codec: missing tag in %q", b)
		}
		return json.Unmarshal(b[1:], p)
	}
	return marshal, unmarshal
}

// MarshalElem marshals a key or value the way the configuration's marshaler does.
func (c Config) MarshalElem(x interface{}) ([]byte, error) {
	m, _ := c.Codec()
	if m == nil {
		return json.Marshal(x)
	}
	return m(x)
}

// UnmarshalKey decodes marshaled key bytes into the configuration's key type.
func (c Config) UnmarshalKey(b []byte) (interface{}, error) {
	_, u := c.Codec()
	p := reflect.New(reflect.TypeOf(c.ZeroKey()))
	var err error
	if u == nil {
		err = json.Unmarshal(b, p.Interface())
	} else {
		err = u(b, p.Interface())
	}
	if err != nil {
		return nil, err
	}
	return p.Elem().Interface(), nil
}

// RefNodeFromCustomV1 converts a custom-codec v1 node to a ref.Node.
func RefNodeFromCustomV1(b []byte) (*ref.Node, error) {
	var cn customNode
	dec := json.NewDecoder(bytes.NewReader(b))
	dec.DisallowUnknownFields()
	if err := dec.Decode(&cn); err != nil {
		return nil, err
	}
	if len(cn.K) != len(cn.V) {
		return nil, fmt.Errorf("%d keys, %d values", len(cn.K), len(cn.V))
	}
	n := &ref.Node{Keys: cn.K, Values: cn.V}
	if n.Keys == nil {
		n.Keys, n.Values = [][]byte{}, [][]byte{}
	}
	switch len(cn.L) {
	case 0:
		n.Links = make([]string, len(cn.K)+1)
	case len(cn.K) + 1:
		n.Links = cn.L
	default:
		return nil, fmt.Errorf("%d keys, %d links", len(cn.K), len(cn.L))
	}
	return n, nil
}

// EncodeCustomV1 is the reference encoding of a custom-codec v1 node.
func EncodeCustomV1(n *ref.Node) []byte {
	var buf bytes.Buffer
	list := func(items [][]byte) {
		if len(items) == 0 {
			buf.WriteString("null")
			return
		}
		buf.WriteByte('[')
		for i, it := range items {
			if i > 0 {
				buf.WriteByte(',')
			}
			buf.WriteByte('"')
			buf.WriteString(base64.StdEncoding.EncodeToString(it))
			buf.WriteByte('"')
		}
		buf.WriteByte(']')
	}
	buf.WriteString(`{"K":`)
	list(n.Keys)
	buf.WriteString(`,"V":`)
	list(n.Values)
	if n.HasChild() {
		buf.WriteString(`,"L":[`)
		for i, l := range n.Links {
			if i > 0 {
				buf.WriteByte(',')
			}
			q, _ := json.Marshal(l)
			buf.Write(q)
		}
		buf.WriteByte(']')
	}
	buf.WriteByte('}')
	return buf.Bytes()
}

// DecodeNode decodes stored node bytes of this configuration into a ref.Node.
func (c Config) DecodeNode(b []byte) (*ref.Node, error) {
	if c.Format == ref.FormatV1 && c.Marshaler != "json" {
		return RefNodeFromCustomV1(b)
	}
	return ref.Decode(c.Format, b)
}

// EncodeNode is the reference encoder for this configuration.
func (c Config) EncodeNode(n *ref.Node) []byte {
	if c.Format == ref.FormatV1 && c.Marshaler != "json" {
		return EncodeCustomV1(n)
	}
	return ref.Encode(c.Format, n)
}

// ---- universes -------------------------------------------------------------

func (c Config) ZeroKey() interface{} {
	switch c.Key {
	case KInt:
		return int(0)
	case KInt64:
		return int64(0)
	case KUint:
		return uint(0)
	case KUint64:
		return uint64(0)
	case KString:
		return ""
	case KBytes:
		return []byte{}
	case KLK:
		return LK{}
	case KStruct:
		return SK{}
	case KInt32:
		return int32(0)
	case KUint16:
		return uint16(0)
	case KNamed:
		return NK(0)
	}
	panic("bad key kind " + c.Key)
}

func (c Config) ZeroVal() interface{} {
	switch c.Val {
	case VInt:
		return int(0)
	case VString, VLong:
		return ""
	case VBytes:
		return []byte{}
	case VStruct:
		return SV{}
	case VIface:
		return SI{}
	case VTags:
		return TV{}
	case VPtr:
		return (*int)(nil)
	case VNil:
		return nil
	case VFloat:
		return float64(0)
	}
	panic("bad value kind " + c.Val)
}

// MakeVal materialises value number n (n >= 0) of the configuration's value type.
func (c Config) MakeVal(n int) interface{} {
	switch c.Val {
	case VInt:
		return n
	case VNil:
		return nil
	case VFloat:
		if n >= 0 && n < len(floatVals) {
			return floatVals[n]
		}
		return float64(n) + 0.25
	case VString:
		if n%4 == 3 {
			// characters that JSON escapes (<, >, &), quotes and a non-ASCII rune
			return fmt.Sprintf("v%d<&>\"'é", n)
		}
		return fmt.Sprintf("v%d", n)
	case VLong:
		if n < 0 {
			n = -n
		}
		l := longLens[n%len(longLens)] - 2
		b := make([]byte, l)
		for i := range b {
			b[i] = byte('a' + n%26)
		}
		// distinct value numbers must give distinct values even when they share a length
		tag := fmt.Sprintf("%d.", n)
		copy(b, tag)
		return string(b)
	case VIface:
		// the shape JSON gives back: []interface{} of float64 and string
		return SI{A: fmt.Sprintf("i%d", n), X: []interface{}{float64(n), "x"}}
	case VTags:
		v := TV{Name: fmt.Sprintf("t%d", n)}
		for i := 0; i < n%4; i++ {
			v.Tags = append(v.Tags, fmt.Sprintf("tag%d.%d", n, i))
		}
		if n%3 == 1 {
			v.Attr = map[string]string{fmt.Sprintf("k%d", n%5): "x"}
		}
		return v
	case VPtr:
		p := new(int)
		*p = n
		return p
	case VBytes:
		return []byte{byte(n), byte(n >> 8), 'x'}
	case VStruct:
		if n%3 == 0 {
			return SV{A: fmt.Sprintf("s%d", n)}
		}
		return SV{A: fmt.Sprintf("s%d", n), B: []uint8{uint8(n), 7}}
	}
	panic("bad value kind")
}

// RefLayer / RefCompare use the independent reference with the configuration's marshaler.
func (c Config) RefLayer(k interface{}) uint8 {
	l, err := ref.Layer(k, c.BF, c.MarshalElem)
	if err != nil {
		panic(err)
	}
	return l
}

func (c Config) RefCompare(a, b interface{}) int {
	r, err := ref.Compare(a, b, c.MarshalElem)
	if err != nil {
		panic(err)
	}
	if c.Cmp == "reversed" {
		return -r
	}
	return r
}

var poolCache sync.Map

// Pool returns the key universe of a configuration, sorted ascending by the
// reference order. It is a deterministic function of the configuration.
func (c Config) Pool() []interface{} {
	if c.Key == KLK {
		out := make([]interface{}, len(c.LKLayers))
		for i, l := range c.LKLayers {
			out[i] = LK{K: i, L: l}
			if c.Cmp == "reversed" {
				out[i] = LK{K: -i, L: l} // listed in the configured (reversed) order
			}
		}
		return out
	}
	ck := fmt.Sprintf("%s/%d/%s/%d/%s/%v", c.Key, c.BF, c.Marshaler, c.Big, c.Cmp, c.Extra)
	if v, ok := poolCache.Load(ck); ok {
		return v.([]interface{})
	}
	p := c.buildPool()
	sort.SliceStable(p, func(i, j int) bool { return c.RefCompare(p[i], p[j]) < 0 })
	// drop duplicates
	out := p[:0]
	for i, k := range p {
		if i > 0 && c.RefCompare(out[len(out)-1], k) == 0 {
			continue
		}
		out = append(out, k)
	}
	poolCache.Store(ck, out)
	return out
}

// buildBigPool is a dense run of c.Big keys of the configuration's key type.
func (c Config) buildBigPool() []interface{} {
	out := make([]interface{}, 0, c.Big)
	for i := 0; i < c.Big; i++ {
		switch c.Key {
		case KInt:
			out = append(out, i-c.Big/3)
		case KInt64:
			out = append(out, int64(i-c.Big/3))
		case KUint:
			out = append(out, uint(i))
		case KUint64:
			out = append(out, uint64(i))
		case KString:
			out = append(out, fmt.Sprintf("k%d", i))
		case KBytes:
			out = append(out, []byte{byte(i), byte(i >> 8), 0xfe})
		case KStruct:
			out = append(out, SK{A: i % 5, B: fmt.Sprintf("b%d", i)})
		case KInt32:
			out = append(out, int32(i-c.Big/3))
		case KUint16:
			out = append(out, uint16(i*3))
		case KNamed:
			out = append(out, NK(i-c.Big/3))
		default:
			panic("bad key kind for a big pool: " + c.Key)
		}
	}
	return out
}

func (c Config) buildPool() []interface{} {
	if c.Big > 0 {
		return c.buildBigPool()
	}
	bf := int64(c.BF)
	pw := func(e int) int64 {
		r := int64(1)
		for i := 0; i < e; i++ {
			if r > (1<<40)/bf {
				return r
			}
			r *= bf
		}
		return r
	}
	var ints []int64
	for i := int64(0); i <= 6; i++ {
		ints = append(ints, i)
	}
	for e := 1; e <= 5; e++ {
		p := pw(e)
		ints = append(ints, p, p+1, 2*p, 3*p, p*(bf+1))
		if bf > 2 {
			ints = append(ints, p*(bf-1))
		}
	}
	// a band of consecutive numbers so that every layer-0 gap is populated
	for i := int64(7); i < 7+2*bf && i < 40; i++ {
		ints = append(ints, i)
	}
	switch c.Key {
	case KInt, KInt64:
		var out []interface{}
		for _, v := range ints {
			for _, s := range []int64{1, -1} {
				if c.Key == KInt {
					out = append(out, int(v*s))
				} else {
					out = append(out, v*s)
				}
			}
		}
		if c.Key == KInt64 {
			// extremes (differences that overflow) and neighbours above 2^53 (which collapse when compared as float64)
			out = append(out, int64(-1<<63), int64(1<<62), int64(1<<63-1))
			if c.Extra {
				out = append(out, int64(1<<53), int64(1<<53+1), int64(1<<60+1), int64(1<<60+2), int64(-1<<60-1), int64(-1<<60-2))
			}
		}
		return out
	case KUint, KUint64:
		var out []interface{}
		for _, v := range ints {
			if c.Key == KUint {
				out = append(out, uint(v))
			} else {
				out = append(out, uint64(v))
			}
		}
		if c.Key == KUint64 {
			out = append(out, uint64(1<<53+1), uint64(1<<63), ^uint64(0), uint64(1<<63)+uint64(pw(2)))
			if c.Extra {
				out = append(out, uint64(1<<53), uint64(1<<60+1), uint64(1<<60+2), ^uint64(0)-1)
			}
		} else {
			out = append(out, uint(1<<53+1), ^uint(0))
		}
		return out
	}
	// blob-layered kinds: search candidates for a spread of layers
	mk := func(i int) interface{} {
		switch c.Key {
		case KString:
			if i == 0 {
				return ""
			}
			return fmt.Sprintf("k%d", i)
		case KBytes:
			if i == 0 {
				return []byte{}
			}
			return []byte{byte(i), byte(i >> 8), byte(i >> 16), 0xff}
		case KStruct:
			if i%13 == 5 {
				return SK{A: i % 7, B: fmt.Sprintf("b<%d>&", i)}
			}
			return SK{A: i % 7, B: fmt.Sprintf("b%d", i)}
		case KInt32:
			// decimal texts of different lengths and signs: numeric and textual order disagree
			if i%3 == 2 {
				return int32(-(i/3 + 1) * 7)
			}
			return int32(i*i/3 + i)
		case KUint16:
			return uint16(i*37 + i/5)
		case KNamed:
			return NK(i*5 - 40)
		}
		panic("bad key kind")
	}
	var out []interface{}
	if c.Key == KString {
		// keys whose marshaled length sits on the varint boundaries of the binary format
		for _, l := range []int{127, 128, 129, 256} {
			b := make([]byte, l-2)
			for i := range b {
				b[i] = 'L'
			}
			copy(b, fmt.Sprintf("long%d-", l))
			out = append(out, string(b))
		}
		out = append(out, "a<b>&c", "q\"uote'é")
	}
	want := map[uint8]int{0: 22, 1: 10, 2: 5, 3: 3}
	total := 0
	for _, n := range want {
		total += n
	}
	got := map[uint8]int{}
	total += len(out)
	// high layers are rare at large branch factors; the search is capped
	for i := 0; i < 40000 && len(out) < total; i++ {
		k := mk(i)
		l := c.RefLayer(k)
		if l > 3 {
			l = 3
		}
		if got[l] < want[l] {
			got[l]++
			out = append(out, k)
		}
	}
	return out
}

// EqualVal compares two values of the configuration's value type.
func EqualVal(a, b interface{}) bool {
	if fa, ok := a.(float64); ok {
		// bit for bit: +0 and -0 are different values with different encodings
		fb, ok := b.(float64)
		return ok && math.Float64bits(fa) == math.Float64bits(fb)
	}
	return reflect.DeepEqual(a, b)
}
