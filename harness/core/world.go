package core

import (
	"context"
	"encoding/json"
	"fmt"
	"runtime/debug"
	"sort"
	"strings"

	"github.com/jrhy/mast"
	"verif/harness/env"
	"verif/harness/ref"
)

var Ctx = context.Background()

// Model is the sorted-map model: pool index -> value number.
type Model map[int]int

func (m Model) Clone() Model {
	o := make(Model, len(m))
	for k, v := range m {
		o[k] = v
	}
	return o
}

func (m Model) Keys() []int {
	ks := make([]int, 0, len(m))
	for k := range m {
		ks = append(ks, k)
	}
	sort.Ints(ks)
	return ks
}

func (m Model) Equal(o Model) bool {
	if len(m) != len(o) {
		return false
	}
	for k, v := range m {
		if ov, ok := o[k]; !ok || ov != v {
			return false
		}
	}
	return true
}

// Tree is a live mast tree with its model.
type Tree struct {
	M     *mast.Mast
	Model Model
	// Base is the model of the version the tree was loaded from or last
	// persisted as (nil before the first persist of a fresh tree).
	Base      Model
	BaseRoot  *mast.Root
	MaxHeight uint8
	InMemory  bool // created by NewInMemory: no store
	// Touched: keys successfully inserted (new or new value) or deleted since Base.
	Touched      map[int]bool
	HeightAtBase uint8
	// HeightChanged: some mutation since Base left the tree at another height.
	HeightChanged bool
}

func (t *Tree) touch(ki int) {
	if t.Touched == nil {
		t.Touched = map[int]bool{}
	}
	t.Touched[ki] = true
}

// SavedRoot is a persisted version with the model captured at that time.
type SavedRoot struct {
	Root  mast.Root
	Model Model
}

// World owns a store, a cache and trees of one configuration.
type World struct {
	Cfg      Config
	Pool     []interface{}
	Store    *env.RecStore
	Cache    mast.NodeCache
	MapCache *env.MapCache // when the cache is harness-owned
	Counting *env.CountingCache
	// KeyCompare, when set, overrides the key order given to LoadMast.
	KeyCompare func(a, b interface{}) (int, error)
	// WrapMarshal, when set, wraps the marshal function given to LoadMast.
	WrapMarshal func(func(interface{}) ([]byte, error)) func(interface{}) ([]byte, error)
}

func NewWorld(cfg Config) *World {
	w := &World{Cfg: cfg, Pool: cfg.Pool(), Store: env.NewRecStore("mem://verif")}
	inner, mc := MakeCache(cfg.Cache)
	w.MapCache = mc
	if inner != nil {
		w.Counting = &env.CountingCache{Inner: inner}
		w.Cache = w.Counting
	}
	return w
}

// MakeCache builds the cache named by a configuration.
func MakeCache(kind string) (mast.NodeCache, *env.MapCache) {
	switch kind {
	case "", "none":
		return nil, nil
	case "big":
		c := env.NewMapCache(0)
		return c, c
	case "tiny1":
		c := env.NewMapCache(1)
		return c, c
	case "tiny2":
		c := env.NewMapCache(2)
		return c, c
	case "tiny3":
		c := env.NewMapCache(3)
		return c, c
	case "arc":
		return mast.NewNodeCache(64), nil
	case "arc4":
		return mast.NewNodeCache(4), nil
	}
	panic("bad cache kind " + kind)
}

// RemoteConfig builds the loader configuration for a store/cache pair.
func (w *World) RemoteConfig(store mast.Persist, cache mast.NodeCache) *mast.RemoteConfig {
	rc := &mast.RemoteConfig{
		KeysLike:                w.Cfg.ZeroKey(),
		ValuesLike:              w.Cfg.ZeroVal(),
		StoreImmutablePartsWith: store,
		NodeCache:               cache,
		KeyCompare:              w.KeyCompare,
	}
	if w.Cfg.Val == VNil {
		rc.ValuesLike = nil
		rc.UnmarshalerUsesRegisteredTypes = true
	}
	m, u := w.Cfg.Codec()
	if m != nil {
		rc.Marshal, rc.Unmarshal = m, u
		rc.UnmarshalerUsesRegisteredTypes = true
	}
	if rc.KeyCompare == nil && (w.Cfg.Cmp == "scaled" || w.Cfg.Cmp == "reversed") {
		mf := rc.Marshal
		if mf == nil {
			mf = json.Marshal
		}
		def := mast.DefaultKeyCompare(mf)
		factor := 3
		if w.Cfg.Cmp == "reversed" {
			factor = -1
		}
		rc.KeyCompare = func(a, b interface{}) (int, error) {
			r, err := def(a, b)
			return factor * r, err
		}
	}
	if w.WrapMarshal != nil {
		base := rc.Marshal
		if base == nil {
			base = json.Marshal
		}
		rc.Marshal = w.WrapMarshal(base)
	}
	return rc
}

// Safely runs f converting a panic into an error.
func Safely(what string, f func() error) (err error) {
	defer func() {
		if r := recover(); r != nil {
			err = fmt.Errorf("%s panicked: %v\n%s", what, r, trimStack(debug.Stack()))
		}
	}()
	return f()
}

func trimStack(b []byte) string {
	s := string(b)
	if len(s) > 2500 {
		s = s[:2500] + "\n..."
	}
	return s
}

// NewTree creates an empty persisted-mode tree of the world's configuration.
func (w *World) NewTree() (*Tree, error) {
	var t *Tree
	err := Safely("NewRoot/LoadMast", func() error {
		root := w.NewRoot()
		m, err := root.LoadMast(Ctx, w.RemoteConfig(w.Store, w.Cache))
		if err != nil {
			return err
		}
		t = &Tree{M: m, Model: Model{}}
		return nil
	})
	return t, err
}

// NewRoot is the root of a never-populated tree of the world's configuration.
func (w *World) NewRoot() *mast.Root {
	opts := &mast.CreateRemoteOptions{BranchFactor: w.Cfg.BF, NodeFormat: mast.V115Binary}
	if w.Cfg.Format == ref.FormatV1 {
		opts.NodeFormat = mast.V1Marshaler
	}
	return mast.NewRoot(opts)
}

// Load opens a persisted root through the given store/cache (nil store = the world's).
func (w *World) Load(sr *SavedRoot, store mast.Persist, cache mast.NodeCache, viaJSON bool) (*Tree, error) {
	if store == nil {
		store = w.Store
	}
	var t *Tree
	err := Safely("LoadMast", func() error {
		root := sr.Root
		if root.Link != nil {
			l := *root.Link
			root.Link = &l
		}
		if viaJSON && root.NodeFormat == ref.FormatV1 && len(sr.Model)%2 == 0 {
			// roots written before the format field existed carry no NodeFormat and mean v1marshaler
			root.NodeFormat = ""
		}
		if viaJSON {
			b, err := json.Marshal(root)
			if err != nil {
				return err
			}
			root = mast.Root{}
			if err := json.Unmarshal(b, &root); err != nil {
				return err
			}
		}
		m, err := root.LoadMast(Ctx, w.RemoteConfig(store, cache))
		if err != nil {
			return err
		}
		r := sr.Root
		t = &Tree{M: m, Model: sr.Model.Clone(), Base: sr.Model.Clone(), BaseRoot: &r, MaxHeight: m.Height(), HeightAtBase: r.Height}
		return nil
	})
	return t, err
}

func (w *World) Key(i int) interface{} { return w.Pool[i] }

func (t *Tree) noteHeight() {
	h := t.M.Height()
	if h > t.MaxHeight {
		t.MaxHeight = h
	}
	if h != t.HeightAtBase {
		t.HeightChanged = true
	}
}

// Insert applies Insert to tree and model.
func (w *World) Insert(t *Tree, ki, vn int) error {
	if w.Cfg.Val == VNil {
		vn = 0 // every value is nil: one value number
	}
	if old, ok := t.Model[ki]; ok && old != vn && w.Cfg.SameVal(old, vn) {
		// -0 over +0 or the reverse: the library calls that a no-op today (reflect.DeepEqual) although the two encode differently;
		// which of the two the tree holds afterwards is not something any statement pins down, so the harness never asks: it
		// re-inserts the value the key already has
		vn = old
	}
	err := Safely("Insert", func() error { return t.M.Insert(Ctx, w.Pool[ki], w.Cfg.MakeVal(vn)) })
	if err != nil {
		return fmt.Errorf("Insert(%v,%v) failed: %w", w.Pool[ki], w.Cfg.MakeVal(vn), err)
	}
	if old, ok := t.Model[ki]; !ok || old != vn {
		t.touch(ki)
	}
	t.Model[ki] = vn
	t.noteHeight()
	return nil
}

// Delete applies Delete with the model's value.
func (w *World) Delete(t *Tree, ki int) error {
	vn, ok := t.Model[ki]
	if !ok {
		return fmt.Errorf("harness: Delete of absent key")
	}
	err := Safely("Delete", func() error { return t.M.Delete(Ctx, w.Pool[ki], w.Cfg.MakeVal(vn)) })
	if err != nil {
		return fmt.Errorf("Delete(%v,%v) of a present entry failed: %w", w.Pool[ki], w.Cfg.MakeVal(vn), err)
	}
	delete(t.Model, ki)
	t.touch(ki)
	t.noteHeight()
	return nil
}

// DeleteMustFail issues a delete that must fail without effect (absent key or wrong value).
func (w *World) DeleteMustFail(t *Tree, ki, vn int) error {
	var derr error
	err := Safely("Delete", func() error { derr = t.M.Delete(Ctx, w.Pool[ki], w.Cfg.MakeVal(vn)); return nil })
	if err != nil {
		return err
	}
	if derr == nil {
		return fmt.Errorf("Delete(%v,%v) succeeded although the tree does not hold that entry (model: %v)", w.Pool[ki], w.Cfg.MakeVal(vn), w.DescribeModel(t.Model))
	}
	return nil
}

// Get looks a key up and compares with the model.
func (w *World) Get(t *Tree, ki int) error {
	var got interface{}
	var found bool
	err := Safely("Get", func() error {
		var e error
		found, e = t.M.Get(Ctx, w.Pool[ki], &got)
		return e
	})
	if err != nil {
		return fmt.Errorf("Get(%v) failed: %w", w.Pool[ki], err)
	}
	vn, want := t.Model[ki]
	if found != want {
		return fmt.Errorf("Get(%v) found=%v, model says present=%v", w.Pool[ki], found, want)
	}
	if found && !EqualVal(got, w.Cfg.MakeVal(vn)) {
		return fmt.Errorf("Get(%v) = %#v, last written value is %#v", w.Pool[ki], got, w.Cfg.MakeVal(vn))
	}
	return nil
}

// KV is one entry as returned by mast.
type KV struct{ K, V interface{} }

// IterAll returns all entries in iteration order.
func IterAll(m *mast.Mast) ([]KV, error) {
	var out []KV
	err := Safely("Iter", func() error {
		return m.Iter(Ctx, func(k, v interface{}) error {
			out = append(out, KV{k, v})
			return nil
		})
	})
	return out, err
}

// CompareContents checks Size and a full iteration of m against a model.
func (w *World) CompareContents(m *mast.Mast, model Model) error {
	var size uint64
	if err := Safely("Size", func() error { size = m.Size(); return nil }); err != nil {
		return err
	}
	if size != uint64(len(model)) {
		return fmt.Errorf("Size() = %d, model has %d live entries", size, len(model))
	}
	got, err := IterAll(m)
	if err != nil {
		return fmt.Errorf("Iter failed: %w", err)
	}
	keys := model.Keys()
	if len(got) != len(keys) {
		return fmt.Errorf("Iter yielded %d entries %v, model has %d: %v", len(got), kvKeys(got), len(keys), w.DescribeModel(model))
	}
	for i, ki := range keys {
		if w.Cfg.RefCompare(got[i].K, w.Pool[ki]) != 0 || !sameType(got[i].K, w.Pool[ki]) {
			return fmt.Errorf("Iter entry %d has key %#v, expected %#v (yielded %v, model %v)", i, got[i].K, w.Pool[ki], kvKeys(got), w.DescribeModel(model))
		}
		if !EqualVal(got[i].V, w.Cfg.MakeVal(model[ki])) {
			return fmt.Errorf("Iter entry %d key %v has value %#v, expected %#v", i, got[i].K, got[i].V, w.Cfg.MakeVal(model[ki]))
		}
	}
	return nil
}

func sameType(a, b interface{}) bool { return fmt.Sprintf("%T", a) == fmt.Sprintf("%T", b) }

func kvKeys(kvs []KV) []interface{} {
	out := make([]interface{}, len(kvs))
	for i, kv := range kvs {
		out[i] = kv.K
	}
	return out
}

func (w *World) DescribeModel(m Model) string {
	var b strings.Builder
	keys := m.Keys()
	b.WriteByte('{')
	for i, k := range keys {
		if len(keys) > 90 && i == 40 {
			// big models are abbreviated; the replay file holds the whole case
			fmt.Fprintf(&b, " ...(%d entries in all)...", len(keys))
		}
		if len(keys) > 90 && i >= 40 && i < len(keys)-10 {
			continue
		}
		if i > 0 {
			b.WriteByte(' ')
		}
		fmt.Fprintf(&b, "%v:%d", w.Pool[k], m[k])
	}
	b.WriteByte('}')
	return b.String()
}

// Check compares a tree with its model.
func (w *World) Check(t *Tree) error { return w.CompareContents(t.M, t.Model) }

// Persist calls MakeRoot and records the version.
func (w *World) Persist(t *Tree) (*SavedRoot, error) {
	var root *mast.Root
	err := Safely("MakeRoot", func() error {
		var e error
		root, e = t.M.MakeRoot(Ctx)
		return e
	})
	if err != nil {
		return nil, fmt.Errorf("MakeRoot failed: %w", err)
	}
	if root == nil {
		return nil, fmt.Errorf("MakeRoot returned a nil root without error")
	}
	sr := &SavedRoot{Root: copyRoot(*root), Model: t.Model.Clone()}
	t.Base = t.Model.Clone()
	r := copyRoot(*root)
	t.BaseRoot = &r
	t.Touched = nil
	t.HeightAtBase = r.Height
	t.HeightChanged = false
	return sr, nil
}

func copyRoot(r mast.Root) mast.Root {
	if r.Link != nil {
		l := *r.Link
		r.Link = &l
	}
	return r
}

// Clone clones tree and model.
func (w *World) Clone(t *Tree) (*Tree, error) {
	var c mast.Mast
	err := Safely("Clone", func() error {
		var e error
		c, e = t.M.Clone(Ctx)
		return e
	})
	if err != nil {
		return nil, fmt.Errorf("Clone failed: %w", err)
	}
	nt := &Tree{M: &c, Model: t.Model.Clone(), MaxHeight: t.MaxHeight, InMemory: t.InMemory}
	if t.Base != nil {
		nt.Base = t.Base.Clone()
	}
	nt.BaseRoot = t.BaseRoot
	nt.HeightAtBase = t.HeightAtBase
	nt.HeightChanged = t.HeightChanged
	for k := range t.Touched {
		nt.touch(k)
	}
	return nt, nil
}

// RefEntries renders a model as sorted reference entries.
func (w *World) RefEntries(m Model) []ref.Entry {
	keys := m.Keys()
	out := make([]ref.Entry, 0, len(keys))
	for _, ki := range keys {
		kb, err := w.Cfg.MarshalElem(w.Pool[ki])
		if err != nil {
			panic(err)
		}
		vb, err := w.Cfg.MarshalElem(w.Cfg.MakeVal(m[ki]))
		if err != nil {
			panic(err)
		}
		out = append(out, ref.Entry{Key: kb, Value: vb, Layer: w.Cfg.RefLayer(w.Pool[ki])})
	}
	return out
}

// RefRoot is the root the independent reference computes for a model.
func (w *World) RefRoot(m Model) (ref.Root, map[string][]byte) {
	if w.Cfg.Format == ref.FormatV1 && w.Cfg.Marshaler != "json" {
		panic("reference builder does not cover the custom v1 node encoding")
	}
	return ref.Build(w.RefEntries(m), w.Cfg.BF, w.Cfg.Format)
}

// RootOf converts a mast root for comparison with the reference.
func RootOf(r mast.Root) ref.Root {
	out := ref.Root{Height: r.Height, Size: r.Size}
	if r.Link != nil {
		out.Link = *r.Link
	}
	return out
}

// Reachable returns the decoded nodes reachable from a saved root in the world's store.
func (w *World) Reachable(r mast.Root) (map[string]*ref.Node, error) {
	link := ""
	if r.Link != nil {
		link = *r.Link
	}
	return ReachableIn(w.Cfg, link, w.Store.Peek)
}

// ReachableIn walks a version in any name->bytes source using the configuration's decoder.
func ReachableIn(cfg Config, link string, load func(string) ([]byte, bool)) (map[string]*ref.Node, error) {
	return ref.Reachable(link, cfg.DecodeNode, load)
}

// ResyncModel rebuilds a tree's model from what the tree actually holds (used after an
// operation failed under an injected fault, where the post-state is not this check's subject).
func (w *World) ResyncModel(t *Tree) error {
	kvs, err := IterAll(t.M)
	if err != nil {
		return err
	}
	model := Model{}
	for _, kv := range kvs {
		ki := -1
		lo, hi := 0, len(w.Pool)
		for lo < hi {
			mid := (lo + hi) / 2
			c := w.Cfg.RefCompare(w.Pool[mid], kv.K)
			if c == 0 {
				ki = mid
				break
			} else if c < 0 {
				lo = mid + 1
			} else {
				hi = mid
			}
		}
		if ki < 0 {
			return fmt.Errorf("tree holds key %v which is not in the pool", kv.K)
		}
		vn := -1
		for n := 0; n < 64; n++ {
			if EqualVal(kv.V, w.Cfg.MakeVal(n)) {
				vn = n
				break
			}
		}
		if vn < 0 {
			return fmt.Errorf("tree holds an unknown value for key %v", kv.K)
		}
		model[ki] = vn
	}
	t.Model = model
	return nil
}
