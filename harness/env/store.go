// Package env provides harness-owned environments for mast: recording and
// fault-injecting stores and node caches, all behind mast's public interfaces.
package env

import (
	"context"
	"fmt"
	"io"
	"sort"
	"sync"
)

// Call is one Store or Load call seen by a RecStore.
type Call struct {
	Store bool
	Name  string
	Bytes []byte // Store only: a copy taken when the call arrived
	// Given is the very slice the caller handed to Store (a store may keep it - mast's own in-memory store does -
	// so the caller must leave it alone afterwards)
	Given []byte
	Err   bool
}

// RecStore is an in-memory Persist that records every call and can inject faults.
// It is safe for concurrent use (mast stores from worker goroutines).
type RecStore struct {
	mu     sync.Mutex
	Prefix string
	data   map[string][]byte
	Calls  []Call
	record bool
	nLoad  int
	nStore int
	// FailLoad / FailStore, when non-nil, decide per call (1-based index since
	// the last ResetCounters) whether that call fails.
	FailLoad  func(i int, name string) bool
	FailStore func(i int, name string) bool
	// OnStore, when non-nil, is called (outside the lock) before a Store is applied.
	OnStore func(i int, name string)
	// Conflicts collects names that were stored twice with different bytes.
	Conflicts []string
}

var ErrInjected = fmt.Errorf("injected store fault")

func NewRecStore(prefix string) *RecStore {
	return &RecStore{Prefix: prefix, data: map[string][]byte{}, record: true}
}

func (s *RecStore) NodeURLPrefix() string { return s.Prefix }

func (s *RecStore) Store(ctx context.Context, name string, b []byte) error {
	s.mu.Lock()
	s.nStore++
	i := s.nStore
	fail := s.FailStore != nil && s.FailStore(i, name)
	onStore := s.OnStore
	s.mu.Unlock()
	if onStore != nil {
		onStore(i, name)
	}
	cp := append([]byte(nil), b...)
	s.mu.Lock()
	defer s.mu.Unlock()
	if s.record {
		s.Calls = append(s.Calls, Call{Store: true, Name: name, Bytes: cp, Given: b, Err: fail})
	}
	if fail {
		return ErrInjected
	}
	if old, ok := s.data[name]; ok && string(old) != string(cp) {
		s.Conflicts = append(s.Conflicts, name)
	}
	s.data[name] = cp
	return nil
}

func (s *RecStore) Load(ctx context.Context, name string) ([]byte, error) {
	s.mu.Lock()
	defer s.mu.Unlock()
	s.nLoad++
	fail := s.FailLoad != nil && s.FailLoad(s.nLoad, name)
	if s.record {
		s.Calls = append(s.Calls, Call{Name: name, Err: fail})
	}
	if fail {
		return nil, ErrInjected
	}
	b, ok := s.data[name]
	if !ok {
		return nil, fmt.Errorf("recstore: %q not found", name)
	}
	return append([]byte(nil), b...), nil
}

// Peek reads without recording or faulting.
func (s *RecStore) Peek(name string) ([]byte, bool) {
	s.mu.Lock()
	defer s.mu.Unlock()
	b, ok := s.data[name]
	return b, ok
}

// Put writes without recording.
func (s *RecStore) Put(name string, b []byte) {
	s.mu.Lock()
	defer s.mu.Unlock()
	s.data[name] = append([]byte(nil), b...)
}

func (s *RecStore) Delete(name string) {
	s.mu.Lock()
	defer s.mu.Unlock()
	delete(s.data, name)
}

func (s *RecStore) Len() int {
	s.mu.Lock()
	defer s.mu.Unlock()
	return len(s.data)
}

func (s *RecStore) Names() []string {
	s.mu.Lock()
	defer s.mu.Unlock()
	out := make([]string, 0, len(s.data))
	for k := range s.data {
		out = append(out, k)
	}
	sort.Strings(out)
	return out
}

// Mark returns the current position in the call log.
func (s *RecStore) Mark() int {
	s.mu.Lock()
	defer s.mu.Unlock()
	return len(s.Calls)
}

// Since returns a copy of the calls recorded after mark.
func (s *RecStore) Since(mark int) []Call {
	s.mu.Lock()
	defer s.mu.Unlock()
	return append([]Call(nil), s.Calls[mark:]...)
}

// ResetCounters restarts the 1-based fault indices.
func (s *RecStore) ResetCounters() {
	s.mu.Lock()
	defer s.mu.Unlock()
	s.nLoad, s.nStore = 0, 0
}

func (s *RecStore) Counters() (loads, stores int) {
	s.mu.Lock()
	defer s.mu.Unlock()
	return s.nLoad, s.nStore
}

// TrimLog drops the recorded calls (long histories).
func (s *RecStore) TrimLog() {
	s.mu.Lock()
	defer s.mu.Unlock()
	s.Calls = nil
}

// DistinctLoads returns the distinct names loaded since mark.
func (s *RecStore) DistinctLoads(mark int) map[string]bool {
	out := map[string]bool{}
	for _, c := range s.Since(mark) {
		if !c.Store {
			out[c.Name] = true
		}
	}
	return out
}

// StoresSince returns the Store calls since mark.
func (s *RecStore) StoresSince(mark int) []Call {
	var out []Call
	for _, c := range s.Since(mark) {
		if c.Store {
			out = append(out, c)
		}
	}
	return out
}

// AliasStore is a second handle on the same RecStore that reports another NodeURLPrefix
// (the same node container reached through another endpoint or path spelling).
type AliasStore struct {
	*RecStore
	AliasPrefix string
}

func (a AliasStore) NodeURLPrefix() string { return a.AliasPrefix }

// FailErrKinds are the errors a failing store returns: a plain error, and errors that wrap the standard context
// errors although the caller's context is alive (a store with per-request deadlines or hedged requests).
var FailErrKinds = []error{
	nil, // ErrInjected
	fmt.Errorf("store request aborted: %w", context.Canceled),
	fmt.Errorf("store request timed out: %w", context.DeadlineExceeded),
	fmt.Errorf("connection lost: %w", io.ErrUnexpectedEOF),
}
