package env

import (
	"context"
	"runtime"
	"sync"
	"sync/atomic"
	"time"
)

// Fate of one Store call, assigned by arrival index.
type Fate struct {
	Delay    int  `json:"delay,omitempty"`    // 0-3: how long the call yields before completing (shapes the completion order only)
	Straggle bool `json:"straggle,omitempty"` // hold the call until the flush has returned, or a 5 ms guard expires
	Fail     bool `json:"fail,omitempty"`
}

// GatedStore wraps a RecStore and gives the harness control over concurrent
// Store calls: per-arrival fates, an in-flight counter and completion order.
type GatedStore struct {
	*RecStore
	mu          sync.Mutex
	fates       []Fate
	arrivals    int
	inflight    int32
	Returned    chan struct{} // closed by the harness when MakeRoot has returned
	Completion  []int         // arrival indices in completion order
	Failed      int           // number of Store calls that returned an error
	MaxInFlight int
	// FailAbove > 0: a Store call that arrives while more than FailAbove calls (itself included) are in
	// flight fails, like a store that throttles concurrent requests.
	FailAbove int
	// NameHook, when set, sees every Store call first (outside the lock); it may block, and returning true makes that
	// call fail.
	NameHook func(name string) (fail bool)
	// FailErr, when set, is what failing Store calls return (default ErrInjected)
	FailErr error
	// OnArrival, when set, is called (outside the lock) with the arrival index of every Store call.
	OnArrival func(idx int)
}

func NewGatedStore(inner *RecStore) *GatedStore {
	return &GatedStore{RecStore: inner, Returned: make(chan struct{})}
}

// Arm installs the fates for the next flush and resets the observation state.
func (g *GatedStore) Arm(fates []Fate) {
	g.mu.Lock()
	defer g.mu.Unlock()
	g.fates = fates
	g.arrivals = 0
	g.Completion = nil
	g.Failed = 0
	g.MaxInFlight = 0
	g.Returned = make(chan struct{})
}

// InFlight is the number of Store calls that have started and not returned.
func (g *GatedStore) InFlight() int { return int(atomic.LoadInt32(&g.inflight)) }

// Release lets stragglers go (call when MakeRoot has returned).
func (g *GatedStore) Release() {
	g.mu.Lock()
	ch := g.Returned
	g.mu.Unlock()
	select {
	case <-ch:
	default:
		close(ch)
	}
}

func (g *GatedStore) Arrivals() int {
	g.mu.Lock()
	defer g.mu.Unlock()
	return g.arrivals
}

func (g *GatedStore) Store(ctx context.Context, name string, b []byte) error {
	n := atomic.AddInt32(&g.inflight, 1)
	defer atomic.AddInt32(&g.inflight, -1)
	g.mu.Lock()
	idx := g.arrivals
	g.arrivals++
	var f Fate
	if idx < len(g.fates) {
		f = g.fates[idx]
	}
	if int(n) > g.MaxInFlight {
		g.MaxInFlight = int(n)
	}
	returned := g.Returned
	onArrival := g.OnArrival
	if g.FailAbove > 0 && int(n) > g.FailAbove {
		f.Fail = true
	}
	g.mu.Unlock()
	if onArrival != nil {
		onArrival(idx)
	}
	if hook := g.NameHook; hook != nil && hook(name) {
		f.Fail = true
	}
	for i := 0; i < f.Delay*40; i++ {
		runtime.Gosched()
	}
	if f.Straggle {
		select {
		case <-returned:
		case <-time.After(5 * time.Millisecond):
		}
	}
	var err error
	if f.Fail {
		err = ErrInjected
		if g.FailErr != nil {
			err = g.FailErr
		}
		g.RecStore.mu.Lock()
		g.RecStore.Calls = append(g.RecStore.Calls, Call{Store: true, Name: name, Err: true})
		g.RecStore.mu.Unlock()
	} else {
		err = g.RecStore.Store(ctx, name, b)
	}
	g.mu.Lock()
	g.Completion = append(g.Completion, idx)
	if err != nil {
		g.Failed++
	}
	g.mu.Unlock()
	return err
}
