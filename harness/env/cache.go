package env

import (
	"sync"
)

// MapCache is a NodeCache that never evicts (cap <= 0) or evicts in FIFO order
// (cap > 0, deterministic). It counts hits and remembers which keys were served.
type MapCache struct {
	mu     sync.Mutex
	cap    int
	m      map[interface{}]interface{}
	order  []interface{}
	Hits   int
	Adds   int
	Served map[interface{}]int
}

func NewMapCache(capacity int) *MapCache {
	return &MapCache{cap: capacity, m: map[interface{}]interface{}{}, Served: map[interface{}]int{}}
}

func (c *MapCache) Add(key, value interface{}) {
	c.mu.Lock()
	defer c.mu.Unlock()
	c.Adds++
	if _, ok := c.m[key]; !ok {
		c.order = append(c.order, key)
	}
	c.m[key] = value
	if c.cap > 0 {
		for len(c.order) > c.cap {
			old := c.order[0]
			c.order = c.order[1:]
			delete(c.m, old)
		}
	}
}

func (c *MapCache) Contains(key interface{}) bool {
	c.mu.Lock()
	defer c.mu.Unlock()
	_, ok := c.m[key]
	return ok
}

func (c *MapCache) Get(key interface{}) (interface{}, bool) {
	c.mu.Lock()
	defer c.mu.Unlock()
	v, ok := c.m[key]
	if ok {
		c.Hits++
		c.Served[key]++
	}
	return v, ok
}

func (c *MapCache) Len() int {
	c.mu.Lock()
	defer c.mu.Unlock()
	return len(c.m)
}

// HitCount returns the number of Get hits so far.
func (c *MapCache) HitCount() int {
	c.mu.Lock()
	defer c.mu.Unlock()
	return c.Hits
}

// CountingCache wraps any NodeCache and counts traffic (atomically; the
// wrapped cache provides its own synchronisation).
type CountingCache struct {
	Inner interface {
		Add(key, value interface{})
		Contains(key interface{}) bool
		Get(key interface{}) (interface{}, bool)
	}
	mu      sync.Mutex
	hits    int
	adds    int
	lookups int
}

func (c *CountingCache) Add(key, value interface{}) {
	c.mu.Lock()
	c.adds++
	c.mu.Unlock()
	c.Inner.Add(key, value)
}
func (c *CountingCache) Contains(key interface{}) bool { return c.Inner.Contains(key) }
func (c *CountingCache) Get(key interface{}) (interface{}, bool) {
	v, ok := c.Inner.Get(key)
	c.mu.Lock()
	c.lookups++
	if ok {
		c.hits++
	}
	c.mu.Unlock()
	return v, ok
}
func (c *CountingCache) Stats() (hits, adds, lookups int) {
	c.mu.Lock()
	defer c.mu.Unlock()
	return c.hits, c.adds, c.lookups
}
