package env

import (
	"bytes"
	"errors"
	"io"
	"sync"

	"github.com/aws/aws-sdk-go/aws"
	"github.com/aws/aws-sdk-go/aws/awserr"
	"github.com/aws/aws-sdk-go/aws/request"
	"github.com/aws/aws-sdk-go/service/s3"
)

// MiniS3 is a minimal in-memory S3 client (objects keyed by bucket and key) for checks that need the S3 backend
// as a store behind trees; fault injection for the backend contract itself lives in the C18 check.
type MiniS3 struct {
	mu      sync.Mutex
	Objects map[string][]byte // bucket + "\x00" + key
	// FailPut, when set, decides per upload (object key, number of earlier attempts for that key) whether it fails and with what
	FailPut  func(key string, attempt int) error
	attempts map[string]int
}

// S3PutErrs are what a failing upload returns: a plain error and the request failures a real endpoint sends for
// throttling, time-outs, internal errors and dropped connections.
var S3PutErrs = []error{
	errors.New("mini s3: injected PutObject failure"),
	awserr.NewRequestFailure(awserr.New("SlowDown", "Please reduce your request rate.", nil), 503, "REQ1"),
	awserr.NewRequestFailure(awserr.New("RequestTimeout", "Your socket connection to the server was not read from or written to within the timeout period.", nil), 400, "REQ2"),
	awserr.NewRequestFailure(awserr.New("InternalError", "We encountered an internal error. Please try again.", nil), 500, "REQ3"),
	awserr.NewRequestFailure(awserr.New("Throttling", "Rate exceeded", nil), 400, "REQ4"),
	awserr.New("RequestError", "send request failed", errors.New("read: connection reset by peer")),
}

func NewMiniS3() *MiniS3 { return &MiniS3{Objects: map[string][]byte{}} }

func (f *MiniS3) DeleteObjectWithContext(ctx aws.Context, in *s3.DeleteObjectInput, opts ...request.Option) (*s3.DeleteObjectOutput, error) {
	return nil, errors.New("mini s3: delete is not part of the node-store contract")
}

func (f *MiniS3) GetObjectWithContext(ctx aws.Context, in *s3.GetObjectInput, opts ...request.Option) (*s3.GetObjectOutput, error) {
	f.mu.Lock()
	defer f.mu.Unlock()
	if in.Bucket == nil || in.Key == nil {
		return nil, errors.New("mini s3: nil bucket or key")
	}
	b, ok := f.Objects[*in.Bucket+"\x00"+*in.Key]
	if !ok {
		return nil, awserr.New(s3.ErrCodeNoSuchKey, "The specified key does not exist.", nil)
	}
	return &s3.GetObjectOutput{ContentLength: aws.Int64(int64(len(b))), Body: io.NopCloser(bytes.NewReader(append([]byte(nil), b...)))}, nil
}

func (f *MiniS3) PutObjectWithContext(ctx aws.Context, in *s3.PutObjectInput, opts ...request.Option) (*s3.PutObjectOutput, error) {
	if in.Bucket == nil || in.Key == nil || in.Body == nil {
		return nil, errors.New("mini s3: nil bucket, key or body")
	}
	b, err := io.ReadAll(in.Body)
	if err != nil {
		return nil, err
	}
	f.mu.Lock()
	defer f.mu.Unlock()
	if f.FailPut != nil {
		if f.attempts == nil {
			f.attempts = map[string]int{}
		}
		n := f.attempts[*in.Key]
		f.attempts[*in.Key] = n + 1
		if err := f.FailPut(*in.Key, n); err != nil {
			return nil, err
		}
	}
	f.Objects[*in.Bucket+"\x00"+*in.Key] = b
	return &s3.PutObjectOutput{}, nil
}
