package env

import (
	"bytes"
	"errors"
	"io"
	"sync"

	"github.com/aws/aws-sdk-go/aws"
	"github.com/aws/aws-sdk-go/aws/awserr"
	"github.com/aws/aws-sdk-go/aws/request"
	"github.com/aws/aws-sdk-go/service/s3"
)

// MiniS3 is a minimal in-memory S3 client (objects keyed by bucket and key) for checks that need the S3 backend
// as a store behind trees; fault injection for the backend contract itself lives in the C18 check.
type MiniS3 struct {
	mu      sync.Mutex
	Objects map[string][]byte // bucket + "\x00" + key
}

func NewMiniS3() *MiniS3 { return &MiniS3{Objects: map[string][]byte{}} }

func (f *MiniS3) DeleteObjectWithContext(ctx aws.Context, in *s3.DeleteObjectInput, opts ...request.Option) (*s3.DeleteObjectOutput, error) {
	return nil, errors.New("mini s3: delete is not part of the node-store contract")
}

func (f *MiniS3) GetObjectWithContext(ctx aws.Context, in *s3.GetObjectInput, opts ...request.Option) (*s3.GetObjectOutput, error) {
	f.mu.Lock()
	defer f.mu.Unlock()
	if in.Bucket == nil || in.Key == nil {
		return nil, errors.New("mini s3: nil bucket or key")
	}
	b, ok := f.Objects[*in.Bucket+"\x00"+*in.Key]
	if !ok {
		return nil, awserr.New(s3.ErrCodeNoSuchKey, "The specified key does not exist.", nil)
	}
	return &s3.GetObjectOutput{ContentLength: aws.Int64(int64(len(b))), Body: io.NopCloser(bytes.NewReader(append([]byte(nil), b...)))}, nil
}

func (f *MiniS3) PutObjectWithContext(ctx aws.Context, in *s3.PutObjectInput, opts ...request.Option) (*s3.PutObjectOutput, error) {
	if in.Bucket == nil || in.Key == nil || in.Body == nil {
		return nil, errors.New("mini s3: nil bucket, key or body")
	}
	b, err := io.ReadAll(in.Body)
	if err != nil {
		return nil, err
	}
	f.mu.Lock()
	defer f.mu.Unlock()
	f.Objects[*in.Bucket+"\x00"+*in.Key] = b
	return &s3.PutObjectOutput{}, nil
}
