package env

import (
	"context"
	"fmt"
	"sync"
)

// FrozenBase is a set of persisted nodes and their deserialized node objects
// that is never written after construction, so any number of goroutines may
// read it without locks (and therefore without creating happens-before edges
// between them).
type FrozenBase struct {
	Prefix string
	Nodes  map[string][]byte
	Cached map[interface{}]interface{}
}

// FrozenStore is one tree's view: lock-free reads of the base, private
// mutex-guarded overlay for everything the tree writes (mast calls Store from
// its own worker goroutines, so the overlay needs a lock of its own).
type FrozenStore struct {
	Base    *FrozenBase
	mu      sync.Mutex
	overlay map[string][]byte
}

func NewFrozenStore(b *FrozenBase) *FrozenStore {
	return &FrozenStore{Base: b, overlay: map[string][]byte{}}
}

func (s *FrozenStore) NodeURLPrefix() string { return s.Base.Prefix }

func (s *FrozenStore) Load(ctx context.Context, name string) ([]byte, error) {
	if b, ok := s.Base.Nodes[name]; ok {
		return b, nil
	}
	s.mu.Lock()
	defer s.mu.Unlock()
	if b, ok := s.overlay[name]; ok {
		return b, nil
	}
	return nil, fmt.Errorf("frozen store: %q not found", name)
}

func (s *FrozenStore) Store(ctx context.Context, name string, b []byte) error {
	s.mu.Lock()
	defer s.mu.Unlock()
	s.overlay[name] = append([]byte(nil), b...)
	return nil
}

// FrozenCache is one tree's cache view over the shared, immutable base.
type FrozenCache struct {
	Base    *FrozenBase
	mu      sync.Mutex
	overlay map[interface{}]interface{}
	// Served counts base hits per key; only the owning goroutine(s) of this
	// tree touch it, under the private mutex.
	Served map[interface{}]int
}

func NewFrozenCache(b *FrozenBase) *FrozenCache {
	return &FrozenCache{Base: b, overlay: map[interface{}]interface{}{}, Served: map[interface{}]int{}}
}

func (c *FrozenCache) Get(key interface{}) (interface{}, bool) {
	if v, ok := c.Base.Cached[key]; ok {
		c.mu.Lock()
		c.Served[key]++
		c.mu.Unlock()
		return v, true
	}
	c.mu.Lock()
	defer c.mu.Unlock()
	v, ok := c.overlay[key]
	return v, ok
}

func (c *FrozenCache) Contains(key interface{}) bool {
	if _, ok := c.Base.Cached[key]; ok {
		return true
	}
	c.mu.Lock()
	defer c.mu.Unlock()
	_, ok := c.overlay[key]
	return ok
}

func (c *FrozenCache) Add(key, value interface{}) {
	if _, ok := c.Base.Cached[key]; ok {
		return // the base is immutable
	}
	c.mu.Lock()
	defer c.mu.Unlock()
	c.overlay[key] = value
}

// ServedKeys returns the base keys this view handed out.
func (c *FrozenCache) ServedKeys() []interface{} {
	c.mu.Lock()
	defer c.mu.Unlock()
	out := make([]interface{}, 0, len(c.Served))
	for k := range c.Served {
		out = append(out, k)
	}
	return out
}

// Snapshot copies the contents of a MapCache (used to freeze a pre-warmed cache).
func (c *MapCache) Snapshot() map[interface{}]interface{} {
	c.mu.Lock()
	defer c.mu.Unlock()
	out := make(map[interface{}]interface{}, len(c.m))
	for k, v := range c.m {
		out[k] = v
	}
	return out
}

// Snapshot copies the contents of a RecStore.
func (s *RecStore) Snapshot() map[string][]byte {
	s.mu.Lock()
	defer s.mu.Unlock()
	out := make(map[string][]byte, len(s.data))
	for k, v := range s.data {
		out[k] = v
	}
	return out
}
