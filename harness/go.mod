module verif/harness

go 1.23

toolchain go1.23.5

require (
	github.com/jrhy/mast v0.0.0
	pgregory.net/rapid v1.3.0
)

require (
	github.com/hashicorp/golang-lru v1.0.2 // indirect
	github.com/minio/blake2b-simd v0.0.0-20160723061019-3f5f724cb5b1 // indirect
)

replace github.com/jrhy/mast => /repo
